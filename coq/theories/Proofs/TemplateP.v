(* C01: the materializer's template loop (split at the first {ref}, append, continue on the remainder; a working
   column per position and per reference value) computes R2RML template substitution -- for every well-formed template,
   every row and every configuration.  Then: the term the engine builds for a constant, a reference or a template is the
   term of the R2RML generation rules (Spec.spec_lex / Spec.render). *)
From Coq Require Import Lia.
From Morph Require Import Base.UStr Gen.Tables Model.Terms Model.Data Model.Engine Model.Mapping Model.Spec
     Proofs.DataP Proofs.UStrP Proofs.SplitP Proofs.EscP.
From Morph Require Export Model.Fragment.
Local Open Scope N_scope.

(* ---------------------------------------------------------------- well-formed templates *)

Lemma plain_char_iff c : plain_char c = true -> (c =? 123) = false /\ (c =? 125) = false /\ (c =? 92) = false.
Proof. unfold plain_char. rewrite negb_true_iff, !orb_false_iff. tauto. Qed.
Lemma plain_memN c n : forallb plain_char n = true -> (c = 123 \/ c = 125 \/ c = 92) -> memN c n = false.
Proof.
  intros H Hc. induction n as [|x n IH]; simpl in *; auto. apply andb_true_iff in H as [H1 H2].
  apply plain_char_iff in H1 as (A & B & C). rewrite (IH H2), orb_false_r.
  destruct Hc as [->|[->| ->]]; rewrite N.eqb_sym; auto.
Qed.
Lemma memN_cons c x l : memN c (x :: l) = (c =? x) || memN c l. Proof. reflexivity. Qed.
Lemma wf_no_backslash segs : wf segs = true -> memN 92 (flat segs) = false.
Proof.
  induction segs as [|[c|n] r IH]; intro H; auto; cbn [flat wf] in *; apply andb_true_iff in H as [H1 H2].
  - rewrite memN_cons, (IH H2), orb_false_r. apply plain_char_iff in H1 as (_ & _ & C). now rewrite N.eqb_sym.
  - unfold name_ok in H1. destruct n as [|x n]; [discriminate|]. apply andb_true_iff in H1 as [H1 _].
    rewrite memN_cons, memN_app, (plain_memN 92 (x :: n) H1), (memN_cons 92 125), (IH H2) by auto. reflexivity.
Qed.

(* the parser of the Spec inverts [flat] *)
Lemma parse_name n : forall acc rest, forallb plain_char n = true ->
  parse_tpl (n ++ 125 :: rest) false (Some acc) = SVar (rev acc ++ n) :: parse_tpl rest false None.
Proof.
  induction n as [|x n IH]; intros acc rest H; cbn [app parse_tpl].
  - simpl. now rewrite app_nil_r.
  - simpl in H. apply andb_true_iff in H as [H1 H2]. apply plain_char_iff in H1 as (A & B & C). rewrite C, B.
    rewrite IH by auto. simpl. now rewrite <- app_assoc.
Qed.
Theorem parse_flat segs : wf segs = true -> parse_template (flat segs) = segs.
Proof.
  unfold parse_template. induction segs as [|[c|n] r IH]; intro H; auto; cbn [flat wf] in *; apply andb_true_iff in H as [H1 H2].
  - cbn [parse_tpl]. apply plain_char_iff in H1 as (A & B & C). rewrite C, A. now rewrite IH.
  - cbn [parse_tpl]. simpl. unfold name_ok in H1. destruct n as [|x n]; [discriminate|]. apply andb_true_iff in H1 as [H1 _].
    rewrite parse_name by auto. simpl. now rewrite IH.
Qed.
(* and so does the engine's regular expression *)
Lemma find_refs_name n : forall acc rest, forallb plain_char n = true -> rev acc ++ n <> [] ->
  find_refs (n ++ 125 :: rest) (Some acc) = (rev acc ++ n) :: find_refs rest None.
Proof.
  induction n as [|x n IH]; intros acc rest H Hne; cbn [app find_refs].
  - simpl. rewrite app_nil_r in *. destruct acc; [now contradiction Hne|reflexivity].
  - simpl in H. apply andb_true_iff in H as [H1 H2]. apply plain_char_iff in H1 as (A & B & C). rewrite B.
    rewrite IH; auto; simpl; rewrite <- app_assoc; auto.
Qed.
Lemma find_refs_flat segs : wf segs = true -> find_refs (flat segs) None = names segs.
Proof.
  induction segs as [|[c|n] r IH]; intro H; auto; cbn [flat wf names] in *; apply andb_true_iff in H as [H1 H2].
  - cbn [find_refs]. apply plain_char_iff in H1 as (A & _ & _). rewrite A. auto.
  - cbn [find_refs]. simpl. unfold name_ok in H1. destruct n as [|x n]; [discriminate|]. apply andb_true_iff in H1 as [H1 _].
    rewrite find_refs_name; auto; [|discriminate]. simpl. now rewrite IH.
Qed.
Lemma split_aux_no_occurrence sep s : forall cur, contains sep s = false -> split_aux sep s 0 cur = [rev cur ++ s].
Proof.
  induction s as [|x r IH]; intros cur H; simpl; [now rewrite app_nil_r|].
  cbn [contains] in H. apply orb_false_iff in H as [H1 H2]. simpl in H1. rewrite H1. rewrite IH by auto. simpl. now rewrite <- app_assoc.
Qed.
Lemma names_ok segs : wf segs = true -> forall n, In n (names segs) -> replace_all aux esc_open n = n.
Proof.
  induction segs as [|[c|n] r IH]; intros H m Hm; cbn [wf names] in *; [contradiction| |]; apply andb_true_iff in H as [H1 H2]; auto.
  destruct Hm as [<-|Hm]; auto. unfold name_ok in H1. destruct n as [|x n]; [discriminate|]. apply andb_true_iff in H1 as [_ H1].
  apply negb_true_iff in H1. unfold replace_all, split_on. now rewrite split_aux_no_occurrence.
Qed.
Theorem refs_in_template_flat segs : wf segs = true -> refs_in_template (flat segs) = names segs.
Proof.
  intro H. unfold refs_in_template, esc_open, esc_close.
  rewrite (replace_all_absent 92 [123]) by now apply wf_no_backslash.
  rewrite (replace_all_absent 92 [125]) by now apply wf_no_backslash.
  rewrite find_refs_flat by auto. rewrite <- (map_id (names segs)) at 2. apply map_ext_in. now apply names_ok.
Qed.
Lemma unescape_flat segs : wf segs = true -> unescape_braces (flat segs) = flat segs.
Proof.
  intro H. unfold unescape_braces, esc_open, esc_close.
  rewrite (replace_all_absent 92 [123]) by now apply wf_no_backslash.
  now rewrite (replace_all_absent 92 [125]) by now apply wf_no_backslash.
Qed.

(* ---------------------------------------------------------------- the loop *)
Fixpoint esubst (f : ustr -> result ustr) (segs : list seg) : result ustr :=
  match segs with
  | [] => Ok []
  | SLit c :: r => rdo w <- esubst f r; Ok (c :: w)
  | SVar n :: r => rdo v <- f n; rdo w <- esubst f r; Ok (v ++ w)
  end.

Lemma split_on_first c sep' pre rest : memN c pre = false ->
  split_on (c :: sep') (pre ++ (c :: sep') ++ rest) = pre :: split_on (c :: sep') rest.
Proof. intro H. unfold split_on. rewrite split_aux_skip_prefix by auto. rewrite split_aux_at_sep. now rewrite app_nil_r, rev_involutive. Qed.

Section Loop.
  Variables (cfg : ecfg) (k : mkind) (tt : ttype) (dt alias pos : ustr).
  Definition val_of (r : row) (n : ustr) : result ustr :=
    match rget (alias ++ n) r with None => Err EKey | Some v0 => transform_value cfg k tt dt v0 end.
  (* no reference of the template names one of the two working columns *)
  Definition no_shadow (ns : list ustr) : Prop :=
    forall n, In n ns -> ueqb (alias ++ n) pos = false /\ ueqb (alias ++ n) col_refres = false.
  Hypothesis pos_not_refres : ueqb pos col_refres = false.

  Theorem template_loop_spec segs : forall pre r acc r0,
    wf segs = true -> memN 123 pre = false -> rget pos r = Some acc -> no_shadow (names segs) ->
    (forall n, In n (names segs) -> rget (alias ++ n) r = rget (alias ++ n) r0) ->
    match template_loop cfg k tt dt alias pos (names segs) (pre ++ flat segs) r with
    | Ok (rest, r') => exists w cur, esubst (val_of r0) segs = Ok w /\ rget pos r' = Some cur /\ cur ++ rest = acc ++ pre ++ w /\
                                     (forall c, ueqb c pos = false -> ueqb c col_refres = false -> rget c r' = rget c r)
    | Err e => esubst (val_of r0) segs = Err e
    end.
  Proof.
    induction segs as [|[c|n] segs IH]; intros pre r acc r0 Hwf Hpre Hacc Hns Hag.
    - simpl. exists [], acc. rewrite !app_nil_r. auto.
    - cbn [wf flat names esubst] in *. apply andb_true_iff in Hwf as [Hc Hwf].
      replace (pre ++ c :: flat segs) with ((pre ++ [c]) ++ flat segs) by now rewrite <- app_assoc.
      assert (Hp : memN 123 (pre ++ [c]) = false).
      { apply plain_char_iff in Hc as (A & _ & _). rewrite memN_app, Hpre, (memN_cons 123 c []), N.eqb_sym, A. reflexivity. }
      specialize (IH (pre ++ [c]) r acc r0 Hwf Hp Hacc Hns Hag).
      destruct (template_loop cfg k tt dt alias pos (names segs) ((pre ++ [c]) ++ flat segs) r) as [[rest r']|e].
      + destruct IH as (w & cur & E & Hc1 & Hc2 & Hc3). exists (c :: w), cur. rewrite E. simpl. repeat split; auto.
        rewrite Hc2. now rewrite <- !app_assoc.
      + now rewrite IH.
    - cbn [wf flat names esubst template_loop] in *. apply andb_true_iff in Hwf as [Hn Hwf].
      assert (Hn1 : In n (n :: names segs)) by now left.
      destruct (Hns n Hn1) as [Hs1 Hs2].
      assert (Ev : val_of r0 n = match rget (alias ++ n) r with None => Err EKey | Some v0 => transform_value cfg k tt dt v0 end) by (unfold val_of; now rewrite <- (Hag n Hn1)).
      rewrite Ev. clear Ev.
      destruct (rget (alias ++ n) r) as [v0|]; [|reflexivity].
      destruct (transform_value cfg k tt dt v0) as [v|e]; [|reflexivity]. cbn [rbind].
      replace (pre ++ 123 :: n ++ 125 :: flat segs) with (pre ++ (123 :: n ++ [125]) ++ flat segs) by (simpl; now rewrite <- app_assoc).
      rewrite split_on_first by auto. cbn [hd tl].
      rewrite (join_split (123 :: n ++ [125])) by discriminate.
      rewrite !rget_rset_other by auto. rewrite Hacc.
      set (r3 := rset pos (acc ++ pre ++ v) (rset col_refres v (rset col_refres v0 r))).
      assert (Hother : forall c, ueqb c pos = false -> ueqb c col_refres = false -> rget c r3 = rget c r).
      { intros c C1 C2. unfold r3. now rewrite !rget_rset_other by auto. }
      assert (Hns' : no_shadow (names segs)) by (intros m Hm; apply Hns; now right).
      assert (Hag' : forall m, In m (names segs) -> rget (alias ++ m) r3 = rget (alias ++ m) r0).
      { intros m Hm. destruct (Hns' m Hm). rewrite Hother by auto. apply Hag. now right. }
      specialize (IH [] r3 (acc ++ pre ++ v) r0 Hwf eq_refl (rget_rset_same _ _ _) Hns' Hag'). cbn [app] in IH.
      destruct (template_loop cfg k tt dt alias pos (names segs) (flat segs) r3) as [[rest r']|e].
      + destruct IH as (w & cur & E & Hc1 & Hc2 & Hc3). exists (v ++ w), cur. rewrite E. simpl. repeat split; auto.
        * rewrite Hc2. now rewrite <- !app_assoc.
        * intros c C1 C2. rewrite Hc3 by auto. now apply Hother.
      + now rewrite IH.
  Qed.
End Loop.
