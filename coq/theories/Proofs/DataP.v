(* Lemmas about rows, frames and _preprocess_data. *)
From Coq Require Import String Lia.
From Morph Require Import Base.UStr Model.Data.
Local Open Scope N_scope.

Lemma ueqb_refl a : ueqb a a = true.
Proof. induction a; simpl; auto. now rewrite N.eqb_refl. Qed.
Lemma ueqb_eq a : forall b, ueqb a b = true <-> a = b.
Proof.
  induction a as [|x a IH]; intros [|y b]; simpl; split; intro H; try discriminate; auto.
  - apply andb_true_iff in H as [H1 H2]. apply N.eqb_eq in H1. apply IH in H2. congruence.
  - injection H as -> ->. now rewrite N.eqb_refl, ueqb_refl.
Qed.
Lemma ueqb_neq a b : ueqb a b = false <-> a <> b.
Proof. split; intro H. - intro E. apply ueqb_eq in E. congruence. - destruct (ueqb a b) eqn:E; auto. apply ueqb_eq in E. contradiction. Qed.
Lemma mem_In k l : mem k l = true <-> In k l.
Proof.
  induction l as [|x l IH]; simpl; split; intro H; try discriminate; try contradiction.
  - apply orb_true_iff in H as [H|H]; [left; symmetry; now apply ueqb_eq|right; now apply IH].
  - apply orb_true_iff. destruct H as [->|H]; [left; apply ueqb_refl|right; now apply IH].
Qed.

(* the filter stage of _preprocess_data keeps exactly the rows without a null in a referenced column *)
Definition kept (na refs : list ustr) (f : list rawrow) : frame :=
  filter (fun r => negb (row_has_null na refs r)) (map str_row f).
Lemma kept_iff na refs f r : In r (kept na refs f) <-> In r (map str_row f) /\ row_has_null na refs r = false.
Proof. unfold kept. rewrite filter_In. now rewrite negb_true_iff. Qed.
Lemma row_has_null_iff na refs r :
  row_has_null na refs r = true <-> exists k v, In k refs /\ rget k r = Some v /\ In v na.
Proof.
  unfold row_has_null. rewrite existsb_exists. split.
  - intros (k & Hk & H). destruct (rget k r) as [v|] eqn:E; [|discriminate]. exists k, v. repeat split; auto. now apply mem_In.
  - intros (k & v & Hk & E & Hv). exists k. split; auto. rewrite E. now apply mem_In.
Qed.
