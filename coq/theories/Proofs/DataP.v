(* Lemmas about rows, frames and _preprocess_data. *)
From Coq Require Import String Lia.
From Morph Require Import Base.UStr Model.Data.
Local Open Scope N_scope.

Lemma ueqb_refl a : ueqb a a = true.
Proof. induction a; simpl; auto. now rewrite N.eqb_refl. Qed.
Lemma ueqb_eq a : forall b, ueqb a b = true <-> a = b.
Proof.
  induction a as [|x a IH]; intros [|y b]; simpl; split; intro H; try discriminate; auto.
  - apply andb_true_iff in H as [H1 H2]. apply N.eqb_eq in H1. apply IH in H2. congruence.
  - injection H as -> ->. now rewrite N.eqb_refl, ueqb_refl.
Qed.
Lemma ueqb_neq a b : ueqb a b = false <-> a <> b.
Proof. split; intro H. - intro E. apply ueqb_eq in E. congruence. - destruct (ueqb a b) eqn:E; auto. apply ueqb_eq in E. contradiction. Qed.
Lemma mem_In k l : mem k l = true <-> In k l.
Proof.
  induction l as [|x l IH]; simpl; split; intro H; try discriminate; try contradiction.
  - apply orb_true_iff in H as [H|H]; [left; symmetry; now apply ueqb_eq|right; now apply IH].
  - apply orb_true_iff. destruct H as [->|H]; [left; apply ueqb_refl|right; now apply IH].
Qed.

(* ---- rows *)
Lemma rget_rset_same k v r : rget k (rset k v r) = Some v.
Proof. unfold rget. induction r as [|[k' v'] r IH]; simpl; [now rewrite ueqb_refl|]. destruct (ueqb k k') eqn:E; simpl; [now rewrite ueqb_refl|now rewrite E]. Qed.
Lemma rget_rset_other k k' v r : ueqb k' k = false -> rget k' (rset k v r) = rget k' r.
Proof.
  intro H. unfold rget. induction r as [|[k2 v2] r IH]; simpl; [now rewrite H|].
  destruct (ueqb k k2) eqn:E; simpl.
  - apply ueqb_eq in E; subst. now rewrite H.
  - destruct (ueqb k' k2); auto.
Qed.
Lemma rget_rdrop_other k x r : ueqb k x = false -> rget k (rdrop x r) = rget k r.
Proof.
  intro H. unfold rget. induction r as [|[a b] r IH]; simpl; auto. destruct (ueqb x a) eqn:E.
  - apply ueqb_eq in E; subst. rewrite H. exact IH.
  - simpl. destruct (ueqb k a); auto.
Qed.

(* the filter stage of _preprocess_data keeps exactly the rows without a null in a referenced column *)
Definition kept (na refs : list ustr) (f : list rawrow) : frame :=
  filter (fun r => negb (row_has_null na refs r)) (map str_row f).
Lemma kept_iff na refs f r : In r (kept na refs f) <-> In r (map str_row f) /\ row_has_null na refs r = false.
Proof. unfold kept. rewrite filter_In. now rewrite negb_true_iff. Qed.
Lemma row_has_null_iff na refs r :
  row_has_null na refs r = true <-> exists k v, In k refs /\ rget k r = Some v /\ In v na.
Proof.
  unfold row_has_null. rewrite existsb_exists. split.
  - intros (k & Hk & H). destruct (rget k r) as [v|] eqn:E; [|discriminate]. exists k, v. repeat split; auto. now apply mem_In.
  - intros (k & v & Hk & E & Hv). exists k. split; auto. rewrite E. now apply mem_In.
Qed.

(* ---- drop_duplicates and _preprocess_data as sets of rows *)
Lemma row_eqb_eq a : forall b, row_eqb a b = true <-> a = b.
Proof.
  induction a as [|[k v] a IH]; intros [|[k' v'] b]; simpl; split; intro H; try discriminate; auto.
  - apply andb_true_iff in H as [H H3]. apply andb_true_iff in H as [H1 H2].
    apply ueqb_eq in H1, H2. apply IH in H3. congruence.
  - injection H as -> -> ->. rewrite !ueqb_refl. simpl. now apply IH.
Qed.
Lemma row_mem_In r l : row_mem r l = true <-> In r l.
Proof.
  induction l as [|x l IH]; simpl; split; intro H; try discriminate; try tauto.
  - apply orb_true_iff in H as [H|H]; [left; symmetry; now apply row_eqb_eq|right; now apply IH].
  - apply orb_true_iff. destruct H as [->|H]; [left; now apply row_eqb_eq|right; now apply IH].
Qed.
Lemma drop_dups_aux_in l : forall seen x, In x (drop_dups_aux seen l) <-> In x l /\ row_mem x seen = false.
Proof.
  induction l as [|y l IH]; intros seen x; simpl; [tauto|].
  destruct (row_mem y seen) eqn:E.
  - rewrite IH. split; [intros [H1 H2]; auto|]. intros [[->|H1] H2]; [congruence|auto].
  - simpl. rewrite IH. simpl. split.
    + intros [->|[H1 H2]]; [auto|]. apply orb_false_iff in H2 as [_ H2]. auto.
    + intros [[->|H1] H2]; [auto|]. destruct (row_eqb x y) eqn:E2; [apply row_eqb_eq in E2; subst; auto|]. right. split; auto; simpl; now rewrite ?E2.
Qed.
Lemma drop_duplicates_in l x : In x (drop_duplicates l) <-> In x l.
Proof. unfold drop_duplicates. rewrite drop_dups_aux_in. simpl. tauto. Qed.
(* the preprocessed frame of a union of row sets is the union of the preprocessed frames *)
Lemma preprocess_app na refs f1 f2 r :
  In r (preprocess na refs (f1 ++ f2)) <-> In r (preprocess na refs f1) \/ In r (preprocess na refs f2).
Proof.
  unfold preprocess. rewrite !drop_duplicates_in. rewrite filter_app, map_app, filter_app, map_app. apply in_app_iff.
Qed.
(* row order and duplicated rows do not matter *)
Lemma preprocess_same_rows na refs f f' : (forall r, In r f <-> In r f') -> forall r, In r (preprocess na refs f) <-> In r (preprocess na refs f').
Proof.
  intros H r. unfold preprocess. rewrite !drop_duplicates_in, !in_map_iff.
  split; intros (x & E & Hx); exists x; split; auto; apply filter_In in Hx as [Hx P]; apply filter_In; split; auto;
    apply in_map_iff in Hx as (y & E2 & Hy); apply in_map_iff; exists y; split; auto; apply filter_In in Hy as [Hy Q]; apply filter_In; split; auto; now apply H.
Qed.

(* ---- C06: which rows reach term construction *)
Lemma preprocess_in na refs f r :
  In r (preprocess na refs f) <->
  exists raw, In raw f /\ raw_has_null refs raw = false /\ row_has_null na refs (str_row raw) = false /\ r = null_to_text na (str_row raw).
Proof.
  unfold preprocess. rewrite drop_duplicates_in, in_map_iff. split.
  - intros (x & <- & Hx). apply filter_In in Hx as [Hx P]. apply in_map_iff in Hx as (raw & <- & Hraw).
    apply filter_In in Hraw as [Hraw Q]. apply negb_true_iff in P, Q. exists raw. auto.
  - intros (raw & Hraw & Q & P & ->). exists (str_row raw). split; auto. apply filter_In. split; [|now rewrite P].
    apply in_map. apply filter_In. split; auto. now rewrite Q.
Qed.
Lemma raw_has_null_iff refs raw : raw_has_null refs raw = true <-> exists k, In k refs /\ (assoc k raw = Some CNone \/ assoc k raw = Some CNaN).
Proof.
  unfold raw_has_null. rewrite existsb_exists. split.
  - intros (k & Hk & H). exists k. split; auto. destruct (assoc k raw) as [[]|]; try discriminate; auto.
  - intros (k & Hk & [H|H]); exists k; split; auto; now rewrite H.
Qed.
