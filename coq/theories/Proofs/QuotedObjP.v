(* C13: a rule whose OBJECT is a quoted triples map over the same rows: every statement is  s p << t >> [g]  with t exactly
   the triple the quoted map generates for the same row. *)
From Coq Require Import String Lia.
From Morph Require Import Base.UStr Gen.Tables Model.Terms Model.Data Model.Engine Model.Mapping Model.Spec
     Proofs.DataP Proofs.GroupingP Proofs.TemplateP Proofs.TermP Proofs.RowwiseP Proofs.RowSpecP Proofs.RuleSpecP Proofs.QuotedP.
Local Open Scope N_scope.

Lemma rbind_ret {A} (x : result A) : (rdo d <- x; Ok d) = x. Proof. now destruct x. Qed.
Definition st_set_object (r : row) : result (list row) := rdo x <- set_from col_object col_triple quote_triple r; Ok [x].
Definition quoted_obj_stages (cfg : ecfg) (fe : fenv) (rl q : rule) : list (row -> result (list row)) :=
  [mat_terms cfg fe q []; finish_row cfg fe 1 q; st_set_object; mat_terms cfg fe rl []; finish_row cfg fe 0 rl].

Section QuotedObj.
  Variables (cfg : ecfg) (fe : fenv) (rules : list rule) (get_data : ustr -> list ustr -> result frame).
  Variables (rl q : rule).
  Hypothesis Hsk : mkind_eqb (r_sk rl) KQuoted = false.
  Hypothesis Hok : r_ok rl = KQuoted.
  Hypothesis Hoj : r_ojoin rl = [].
  Hypothesis Hq : find_rule rules (r_ov rl) = Some q.
  Hypothesis Hqp : plain_rule q = true.

  Lemma quoted_obj_rule_unfold :
    mat_rule cfg fe rules get_data (rule_fuel rules) rl None [] 0 =
    rdo d0 <- get_data (r_src rl) (quoted_refs fe rules rl); pipe (quoted_obj_stages cfg fe rl q) d0.
  Proof.
    unfold rule_fuel. cbn [mat_rule]. fold (refs_fuel rules). fold (quoted_refs fe rules rl).
    assert (Hac : all_constant rl = false) by (unfold all_constant; rewrite Hok; cbn [mkind_eqb]; now rewrite andb_false_r).
    rewrite Hac, Hsk, Hok. cbn [mkind_eqb orb]. rewrite Hq, Hoj.
    unfold plain_rule in Hqp. rewrite !andb_true_iff, !negb_true_iff in Hqp. destruct Hqp as [[[Q1 Q2] Q3] Q4].
    rewrite Q1, Q2, Q3, Q4. cbn [orb].
    destruct (get_data (r_src rl) (quoted_refs fe rules rl)) as [d0|e]; cbn [rbind]; auto.
    unfold pipe, quoted_obj_stages. cbn [fold_left rbind]. rewrite rbind_ret.
    repeat (apply rbind_ext2; [|intro; try reflexivity; apply rmap_rows_as_rflat]). reflexivity.
  Qed.
End QuotedObj.

Definition spec_quoted_obj_line (scfg : scfg) (rl q : rule) (sr : srow) : option ustr :=
  match spec_parts scfg q sr with
  | None => None
  | Some (s, p, o) =>
      match spec_lex scfg (r_sk rl) (r_sv rl) (r_stt rl) [] sr, spec_lex scfg (r_pk rl) (r_pv rl) TIri [] sr with
      | Some s', Some p' => spec_graph_line scfg rl sr (render (r_stt rl) s' ++ [32] ++ render TIri p' ++ [32] ++ quote_triple (s ++ [32] ++ p ++ [32] ++ o))
      | _, _ => None
      end
  end.

Section QuotedObjRow.
  Variables (cfg : ecfg) (fe : fenv) (scfg : scfg).
  Hypothesis Hcfg : cfg_agree cfg scfg.
  Hypothesis Hnq : c_nquads cfg = s_nquads scfg.
  Variables (rl q : rule).
  Hypothesis Hok : r_ok rl = KQuoted.
  Hypothesis Hld : r_ld rl = LDNone.
  Definition quoted_obj_names : list ustr :=
    rule_names q ++ names (segs_of (r_sk rl) (r_sv rl)) ++ names (segs_of (r_pk rl) (r_pv rl)) ++ names (segs_of (r_gk rl) (r_gv rl)).
  Hypothesis Hq_ok : rule_ok false q.
  Hypothesis HS : pos_ok (r_sk rl) (r_sv rl) (r_stt rl).
  Hypothesis HP : pos_ok (r_pk rl) (r_pv rl) TIri.
  Hypothesis HG : graph_ok (c_nquads cfg) rl.
  Hypothesis Hfree : names_free quoted_obj_names.

  Theorem quoted_obj_row_is_spec r sr :
    row_agree scfg sr [] r quoted_obj_names ->
    match (rdo fs <- pipe (quoted_obj_stages cfg fe rl q) [r]; extract_triples fs) with
    | Ok ls => exists line, spec_quoted_obj_line scfg rl q sr = Some line /\ ls = [line]
    | Err _ => spec_quoted_obj_line scfg rl q sr = None
    end.
  Proof.
    intro Hr. unfold quoted_obj_stages, spec_quoted_obj_line.
    rewrite pipe_cons, rflat_single.
    assert (Hrq : row_agree scfg sr [] r (rule_names q)) by (eapply row_agree_sub; [|exact Hr]; intros n Hn; unfold quoted_obj_names; rewrite in_app_iff; tauto).
    pose proof (terms_phase cfg fe scfg Hcfg false q r sr Hq_ok Hrq) as T.
    destruct (mat_terms cfg fe q [] r) as [l|e]; cbn [rbind]; [|now rewrite T].
    destruct T as (ra & s & p & o & -> & Ep & Gs & Gp & Go & Da). rewrite Ep.
    rewrite pipe_cons, rflat_single. unfold finish_row at 1. rewrite Gs, Gp, Go. cbn [Nat.eqb andb rbind map].
    set (t := s ++ [32] ++ p ++ [32] ++ o).
    set (rb := rdrop col_object (rdrop col_predicate (rdrop col_subject (rset col_triple t ra)))).
    assert (Gt : rget col_triple rb = Some t) by (unfold rb; rewrite !rget_rdrop_other by reflexivity; apply rget_rset_same).
    rewrite pipe_cons, rflat_single. unfold st_set_object, set_from. rewrite Gt. cbn [rbind].
    set (rc := rset col_object (quote_triple t) rb).
    assert (Ac : forall n, In n quoted_obj_names -> rget n rc = rget n r).
    { intros n Hn. pose proof (Hfree n Hn) as Hres. cbn [mem reserved] in Hres. rewrite !orb_false_iff in Hres. destruct Hres as (A & B & C & D & E & F & G & _).
      unfold rc, rb. rewrite rget_rset_other, !rget_rdrop_other, rget_rset_other by auto. apply Da. cbn [mem reserved]. now rewrite A, B, C, D, E, F, G. }
    assert (Hrc : forall ns, (forall n, In n ns -> In n quoted_obj_names) -> row_agree scfg sr [] rc ns).
    { intros ns Hsub n Hn. cbn [app]. rewrite Ac by auto. apply Hr. auto. }
    (* the rule's own subject and predicate; the object column already holds the quoted triple *)
    rewrite pipe_cons, rflat_single. unfold mat_terms. rewrite Hok, Hld.
    rewrite mat_pos_plain by apply HS.
    pose proof (term_step cfg scfg Hcfg (r_sk rl) (r_sv rl) (r_stt rl) [] col_subject rc sr eq_refl HS) as T1.
    assert (A0 : row_agree scfg sr [] rc (names (segs_of (r_sk rl) (r_sv rl)))) by (apply Hrc; intros n Hn; unfold quoted_obj_names; rewrite !in_app_iff; tauto).
    specialize (T1 A0).
    destruct (mat_template cfg (r_sv rl) (r_sk rl) col_subject [] (r_stt rl) [] rc) as [r1|e1]; cbn [rbind]; [|rewrite !bindl_err; cbn [rbind]; now rewrite T1].
    destruct T1 as (s' & Es & Gs' & Us). rewrite Es.
    assert (D1 : same_data rc r1) by (eapply unchanged_same_data; [|exact Us]; reflexivity).
    rewrite bindl_single. rewrite mat_pos_plain by apply HP.
    pose proof (term_step cfg scfg Hcfg (r_pk rl) (r_pv rl) TIri [] col_predicate r1 sr eq_refl HP) as T2.
    assert (A1 : row_agree scfg sr [] r1 (names (segs_of (r_pk rl) (r_pv rl)))).
    { eapply row_agree_carry; [exact D1|apply HP|]. apply Hrc. intros n Hn. unfold quoted_obj_names. rewrite !in_app_iff. tauto. }
    specialize (T2 A1).
    destruct (mat_template cfg (r_pv rl) (r_pk rl) col_predicate [] TIri [] r1) as [r2|e2]; cbn [rbind]; [|rewrite !bindl_err; cbn [rbind]; now rewrite T2].
    destruct T2 as (p' & Ep' & Gp' & Up). rewrite Ep'.
    assert (D2 : same_data r1 r2) by (eapply unchanged_same_data; [|exact Up]; reflexivity).
    rewrite bindl_single. unfold mat_pos at 1. cbn [is_plain]. rewrite bindl_single. cbn [rbind].
    assert (Gs2 : rget col_subject r2 = Some (render (r_stt rl) s')) by (rewrite Up by reflexivity; exact Gs').
    assert (Go2 : rget col_object r2 = Some (quote_triple t)) by (rewrite Up, Us by reflexivity; unfold rc; apply rget_rset_same).
    (* triple string and graph *)
    rewrite pipe_cons, rflat_single, rbind_assoc.
    assert (Hg : row_agree scfg sr [] rc (names (segs_of (r_gk rl) (r_gv rl)))) by (apply Hrc; intros n Hn; unfold quoted_obj_names; rewrite !in_app_iff; tauto).
    pose proof (finish_phase cfg fe scfg Hcfg Hnq rl rc r2 sr _ _ _ Gs2 Gp' Go2 (same_data_trans _ _ _ D1 D2) HG Hg) as T3.
    destruct (finish_row cfg fe 0 rl r2) as [fs|e]; cbn [rbind] in *; [|exact T3].
    rewrite pipe_nil. cbn [rbind]. exact T3.
  Qed.
End QuotedObjRow.

Section QuotedObjRule.
  Variables (cfg : ecfg) (fe : fenv) (rules : list rule) (get_data : ustr -> list ustr -> result frame) (scfg : scfg).
  Hypothesis Hcfg : cfg_agree cfg scfg.
  Hypothesis Hnq : c_nquads cfg = s_nquads scfg.
  Variables (rl q : rule).
  Hypothesis Hok : r_ok rl = KQuoted.
  Hypothesis Hld : r_ld rl = LDNone.
  Hypothesis Hoj : r_ojoin rl = [].
  Hypothesis Hq : find_rule rules (r_ov rl) = Some q.
  Hypothesis Hqp : plain_rule q = true.
  Hypothesis Hq_ok : rule_ok false q.
  Hypothesis HS : pos_ok (r_sk rl) (r_sv rl) (r_stt rl).
  Hypothesis HP : pos_ok (r_pk rl) (r_pv rl) TIri.
  Hypothesis HG : graph_ok (c_nquads cfg) rl.
  Hypothesis Hfree : names_free (quoted_obj_names rl q).

  Theorem quoted_obj_rule_is_spec na refs f :
    s_na scfg = na -> incl (quoted_obj_names rl q) refs ->
    get_data (r_src rl) (quoted_refs fe rules rl) = Ok (preprocess na refs f) ->
    (forall ls, rule_triples cfg fe rules get_data rl = Ok ls ->
       forall x, In x ls <-> exists r, In r (preprocess na refs f) /\ spec_quoted_obj_line scfg rl q (srow_of r) = Some x) /\
    ((forall r, In r (preprocess na refs f) -> spec_quoted_obj_line scfg rl q (srow_of r) <> None) ->
       exists ls, rule_triples cfg fe rules get_data rl = Ok ls).
  Proof.
    intros Hna Hincl Hd.
    assert (Hsk : mkind_eqb (r_sk rl) KQuoted = false) by (destruct HS as [Hpl _]; now destruct (r_sk rl)).
    set (d := preprocess na refs f) in *.
    set (ROW := fun r : row => rdo fs <- pipe (quoted_obj_stages cfg fe rl q) [r]; extract_triples fs).
    assert (EQ : okeq (rule_triples cfg fe rules get_data rl) (rdo ls <- rmap_all ROW d; Ok (concat ls))).
    { unfold rule_triples. rewrite (quoted_obj_rule_unfold cfg fe rules get_data rl q Hsk Hok Hoj Hq Hqp), Hd. cbn [rbind].
      eapply okeq_trans; [apply okeq_bind; apply pipe_fuse|]. apply (rflat_fuse_map (fun r => pipe (quoted_obj_stages cfg fe rl q) [r])). }
    assert (Row : forall r, In r d ->
              match ROW r with
              | Ok ls => exists line, spec_quoted_obj_line scfg rl q (srow_of r) = Some line /\ ls = [line]
              | Err _ => spec_quoted_obj_line scfg rl q (srow_of r) = None
              end).
    { intros r Hr. apply (quoted_obj_row_is_spec cfg fe scfg Hcfg Hnq rl q Hok Hld Hq_ok HS HP HG Hfree).
      eapply row_agree_sub; [exact Hincl|]. now apply (preprocessed_agree na refs f). }
    split.
    - intros ls Hls. apply EQ in Hls. intro x. rewrite (concat_rows_in ROW d ls Hls x). split.
      + intros (r & l & Hr & E & Hx). specialize (Row r Hr). rewrite E in Row. destruct Row as (line & Es & ->).
        destruct Hx as [<-|[]]. eauto.
      + intros (r & Hr & Es). specialize (Row r Hr). destruct (ROW r) as [l|e] eqn:E; [|congruence].
        destruct Row as (line & Es' & ->). exists r, [line]. split; [|split]; auto. left. congruence.
    - intro Hall. destruct (concat_rows_total ROW d) as (l & Hl).
      { intros r Hr. specialize (Row r Hr). destruct (ROW r) as [l|e]; eauto. exfalso. now apply (Hall r Hr). }
      exists l. now apply EQ.
  Qed.
End QuotedObjRule.
