(* C12: the engine's result over a rule table is the union of its results over the reference-closed parts of the table
   (RDF-star-free rules: constants, references, templates, function executions, referencing object maps with joins). *)
From Coq Require Import String Lia.
From Morph Require Import Base.UStr Gen.Tables Model.Terms Model.Data Model.Engine Proofs.DataP Proofs.GroupingP Proofs.RowwiseP.
Local Open Scope N_scope.

Definition star_free (r : rule) : bool := negb (mkind_eqb (r_sk r) KQuoted) && negb (mkind_eqb (r_ok r) KQuoted).

Lemma rule_refs_star_free ft rules rules' f f' b r : star_free r = true ->
  rule_refs ft (S f) rules b r = rule_refs ft (S f') rules' b r.
Proof.
  unfold star_free. rewrite andb_true_iff, !negb_true_iff. intros [Hs Ho]. cbn [rule_refs].
  destruct (r_sk r); try discriminate; destruct (r_ok r); try discriminate; reflexivity.
Qed.
Lemma rule_refs_subject_star_free ft rules rules' f f' r : mkind_eqb (r_sk r) KQuoted = false ->
  rule_refs ft (S f) rules true r = rule_refs ft (S f') rules' true r.
Proof. intro Hs. cbn [rule_refs]. destruct (r_sk r); try discriminate; reflexivity. Qed.

Section Indep.
  Variables (cfg : ecfg) (fe : fenv) (get_data : ustr -> list ustr -> result frame).
  (* the statements of a star-free rule depend on the rule table only through the parent rule it names *)
  Lemma rule_triples_indep rules rules' rl :
    star_free rl = true ->
    (mkind_eqb (r_ok rl) KParent = true -> find_rule rules (r_ov rl) = find_rule rules' (r_ov rl)) ->
    (forall p, mkind_eqb (r_ok rl) KParent = true -> find_rule rules (r_ov rl) = Some p -> mkind_eqb (r_sk p) KQuoted = false) ->
    rule_triples cfg fe rules get_data rl = rule_triples cfg fe rules' get_data rl.
  Proof.
    intros Hsf Hfind Hpar. unfold rule_triples, rule_fuel. f_equal. cbn [mat_rule].
    unfold refs_fuel. rewrite (rule_refs_star_free (fn_table fe) rules rules' (length rules) (length rules') false rl Hsf).
    unfold star_free in Hsf. rewrite andb_true_iff, !negb_true_iff in Hsf. destruct Hsf as [Hs Ho]. rewrite Hs, Ho. cbn [orb].
    destruct (all_constant rl); [reflexivity|].
    destruct (mkind_eqb (r_ok rl) KParent) eqn:Ep; [|reflexivity].
    rewrite <- (Hfind eq_refl). destruct (find_rule rules (r_ov rl)) as [p|] eqn:Ef; [|reflexivity].
    rewrite (rule_refs_subject_star_free (fn_table fe) rules rules' (length rules) (length rules') p (Hpar p eq_refl eq_refl)).
    reflexivity.
  Qed.
End Indep.

Lemma find_rule_app a b id : find_rule (a ++ b) id = match find_rule a id with Some p => Some p | None => find_rule b id end.
Proof. unfold find_rule. induction a as [|x a IH]; simpl; auto. destruct (ueqb (r_id x) id); auto. Qed.
Lemma find_rule_in rules id p : find_rule rules id = Some p -> In p rules /\ r_id p = id.
Proof. unfold find_rule. intro H. apply find_some in H as [H1 H2]. split; auto. now apply ueqb_eq. Qed.
Lemma find_rule_none rules id : ~ In id (map r_id rules) -> find_rule rules id = None.
Proof.
  unfold find_rule. intro H. destruct (find _ rules) as [p|] eqn:E; auto. apply find_some in E as [H1 H2]. apply ueqb_eq in H2.
  exfalso. apply H. apply in_map_iff. eauto.
Qed.
Lemma rmap_all_ext_in {A B} (f g : A -> result B) l : (forall x, In x l -> f x = g x) -> rmap_all f l = rmap_all g l.
Proof. induction l as [|x l IH]; intro H; simpl; auto. rewrite H by now left. rewrite IH; auto. intros y Hy. apply H. now right. Qed.

(* a part of a rule table is closed: every referencing rule finds its parent rule inside the part, and no parent has a
   quoted subject *)
Definition closed (part : list rule) : Prop :=
  forall rl, In rl part -> star_free rl = true /\
    (mkind_eqb (r_ok rl) KParent = true -> exists p, find_rule part (r_ov rl) = Some p /\ mkind_eqb (r_sk p) KQuoted = false).

Section Union.
  Variables (cfg : ecfg) (fe : fenv) (get_data : ustr -> list ustr -> result frame).
  Variables (R1 R2 : list rule).
  Hypothesis Hids : NoDup (map r_id (R1 ++ R2)).
  Hypothesis C1 : closed R1.
  Hypothesis C2 : closed R2.

  Lemma left_part rl : In rl R1 -> rule_triples cfg fe (R1 ++ R2) get_data rl = rule_triples cfg fe R1 get_data rl.
  Proof.
    intro Hin. destruct (C1 rl Hin) as [Hsf Hp]. apply rule_triples_indep; auto.
    - intro Ep. rewrite find_rule_app. destruct (Hp Ep) as (p & Ef & _). now rewrite Ef.
    - intros p Ep Ef. rewrite find_rule_app in Ef. destruct (Hp Ep) as (q & Eq & Hq). rewrite Eq in Ef. now injection Ef as <-.
  Qed.
  Lemma right_part rl : In rl R2 -> rule_triples cfg fe (R1 ++ R2) get_data rl = rule_triples cfg fe R2 get_data rl.
  Proof.
    intro Hin. destruct (C2 rl Hin) as [Hsf Hp].
    assert (Hn : forall p, find_rule R2 (r_ov rl) = Some p -> find_rule R1 (r_ov rl) = None).
    { intros p Ef. apply find_rule_in in Ef as [Hp2 Hid]. apply find_rule_none. intro Hin1.
      pose proof Hids as Hd. rewrite map_app in Hd.
      assert (X : forall l1 l2 (x : ustr), NoDup (l1 ++ l2) -> In x l1 -> In x l2 -> False).
      { induction l1 as [|a l1 IH]; intros l2 x Hnd H1 H2; [contradiction|]. inversion Hnd as [|? ? Hna Hnd']; subst.
        destruct H1 as [->|H1]; [apply Hna; apply in_or_app; now right|eauto]. }
      apply (X _ _ (r_ov rl) Hd Hin1). apply in_map_iff. eauto. }
    apply rule_triples_indep; auto.
    - intro Ep. rewrite find_rule_app. destruct (Hp Ep) as (p & Ef & _). now rewrite (Hn p Ef).
    - intros p Ep Ef. rewrite find_rule_app in Ef. destruct (Hp Ep) as (q & Eq & Hq). rewrite (Hn q Eq), Eq in Ef. now injection Ef as <-.
  Qed.

  Theorem materialize_union :
    materialize_rules cfg fe (R1 ++ R2) get_data =
    rdo x <- rmap_all (rule_triples cfg fe R1 get_data) (filter r_asserted R1);
    rdo y <- rmap_all (rule_triples cfg fe R2 get_data) (filter r_asserted R2);
    Ok (dedup (concat (x ++ y))).
  Proof.
    unfold materialize_rules. rewrite filter_app, rmap_all_app.
    rewrite (rmap_all_ext_in (rule_triples cfg fe (R1 ++ R2) get_data) (rule_triples cfg fe R1 get_data) (filter r_asserted R1))
      by (intros x Hx; apply left_part; now apply filter_In in Hx as [Hx _]).
    rewrite (rmap_all_ext_in (rule_triples cfg fe (R1 ++ R2) get_data) (rule_triples cfg fe R2 get_data) (filter r_asserted R2))
      by (intros x Hx; apply right_part; now apply filter_In in Hx as [Hx _]).
    destruct (rmap_all _ (filter r_asserted R1)) as [x|e]; simpl; auto.
    destruct (rmap_all _ (filter r_asserted R2)) as [y|e]; simpl; auto.
  Qed.
  (* the statements of the whole table are those of its two parts; it fails iff a part fails *)
  Theorem union_of_parts :
    match materialize_rules cfg fe R1 get_data, materialize_rules cfg fe R2 get_data with
    | Ok l1, Ok l2 => exists l, materialize_rules cfg fe (R1 ++ R2) get_data = Ok l /\ forall x, In x l <-> In x l1 \/ In x l2
    | _, _ => exists e, materialize_rules cfg fe (R1 ++ R2) get_data = Err e
    end.
  Proof.
    rewrite materialize_union. unfold materialize_rules.
    destruct (rmap_all _ (filter r_asserted R1)) as [x|e]; simpl; [|eauto].
    destruct (rmap_all _ (filter r_asserted R2)) as [y|e]; simpl; [|eauto].
    eexists. split; [reflexivity|]. intro z. rewrite !mem_dedup, concat_app, in_app_iff. tauto.
  Qed.
End Union.

(* ---------------------------------------------------------------- rule identifiers are only names *)
(* _normalize_rml_star renumbers every rule of the table; a referencing rule names its parent rule by that number *)
Definition rename (rho : ustr -> ustr) (r : rule) : rule :=
  {| r_id := rho (r_id r); r_tm := r_tm r; r_src := r_src r; r_asserted := r_asserted r;
     r_sk := r_sk r; r_sv := r_sv r; r_stt := r_stt r; r_pk := r_pk r; r_pv := r_pv r;
     r_ok := r_ok r; r_ov := if mkind_eqb (r_ok r) KParent then rho (r_ov r) else r_ov r; r_ott := r_ott r;
     r_ld := r_ld r; r_ldk := r_ldk r; r_ldv := r_ldv r; r_gk := r_gk r; r_gv := r_gv r;
     r_sjoin := r_sjoin r; r_ojoin := r_ojoin r |}.
Lemma find_rule_rename rho rules id :
  (forall a, In a (map r_id rules) -> rho a = rho id -> a = id) ->
  find_rule (map (rename rho) rules) (rho id) = option_map (rename rho) (find_rule rules id).
Proof.
  unfold find_rule. induction rules as [|x l IH]; intro H; simpl; auto.
  destruct (ueqb (r_id x) id) eqn:E.
  - apply ueqb_eq in E. subst. now rewrite ueqb_refl.
  - destruct (ueqb (rho (r_id x)) (rho id)) eqn:E2.
    + apply ueqb_eq in E2. apply H in E2; [|now left]. apply ueqb_neq in E. contradiction.
    + apply IH. intros a Ha. apply H. now right.
Qed.
Lemma rule_refs_rename ft rules rules' f f' b rho r : star_free r = true ->
  rule_refs ft (S f) rules b (rename rho r) = rule_refs ft (S f') rules' b r.
Proof.
  unfold star_free. rewrite andb_true_iff, !negb_true_iff. intros [Hs Ho]. cbn [rule_refs rename r_sk r_sv r_pk r_pv r_ok r_ov r_gk r_gv r_ldk r_ldv r_sjoin r_ojoin].
  destruct (r_sk r); try discriminate; destruct (r_ok r); try discriminate; reflexivity.
Qed.
Lemma mat_terms_fields cfg fe a b :
  r_sk a = r_sk b -> r_sv a = r_sv b -> r_stt a = r_stt b -> r_pk a = r_pk b -> r_pv a = r_pv b -> r_ok a = r_ok b -> r_ov a = r_ov b ->
  r_ott a = r_ott b -> r_ld a = r_ld b -> r_ldk a = r_ldk b -> r_ldv a = r_ldv b -> mat_terms cfg fe a = mat_terms cfg fe b.
Proof. intros H1 H2 H3 H4 H5 H6 H7 H8 H9 H10 H11. unfold mat_terms. now rewrite H1, H2, H3, H4, H5, H6, H7, H8, H9, H10, H11. Qed.
Lemma finish_row_fields cfg fe n a b : r_gk a = r_gk b -> r_gv a = r_gv b -> finish_row cfg fe n a = finish_row cfg fe n b.
Proof. intros H1 H2. unfold finish_row. now rewrite H1, H2. Qed.
Section Rename.
  Variables (cfg : ecfg) (fe : fenv) (get_data : ustr -> list ustr -> result frame).
  Theorem renaming_invariant rho rules rl :
    closed rules -> In rl rules -> (forall a b, In a (map r_id rules) -> In b (map r_id rules) -> rho a = rho b -> a = b) ->
    rule_triples cfg fe (map (rename rho) rules) get_data (rename rho rl) = rule_triples cfg fe rules get_data rl.
  Proof.
    intros Hc Hin Hinj. destruct (Hc rl Hin) as [Hsf Hp].
    unfold rule_triples, rule_fuel. f_equal. cbn [mat_rule].
    unfold refs_fuel. rewrite (rule_refs_rename (fn_table fe) _ rules _ (length rules) false rho rl Hsf).
    assert (Hac : all_constant (rename rho rl) = all_constant rl) by reflexivity. rewrite Hac.
    cbn [rename r_sk r_ok r_src r_ojoin r_sjoin].
    unfold star_free in Hsf. rewrite andb_true_iff, !negb_true_iff in Hsf. destruct Hsf as [Hs Ho]. rewrite Hs, Ho. cbn [orb].
    rewrite (finish_row_fields cfg fe 0 (rename rho rl) rl) by reflexivity.
    assert (Hmt : mkind_eqb (r_ok rl) KParent = false -> mat_terms cfg fe (rename rho rl) = mat_terms cfg fe rl).
    { intro E. apply mat_terms_fields; try reflexivity. cbn [rename r_ov]. now rewrite E. }
    destruct (all_constant rl) eqn:Eac.
    { rewrite Hmt; [reflexivity|]. unfold all_constant in Eac. rewrite !andb_true_iff in Eac. destruct Eac as [[[_ _] Eo] _]. now destruct (r_ok rl). }
    destruct (mkind_eqb (r_ok rl) KParent) eqn:Ep; [|now rewrite Hmt].
    cbn [rename r_ov r_id r_tm r_asserted r_sv r_stt r_pk r_pv r_ott r_ld r_ldk r_ldv r_gk r_gv]. rewrite Ep. destruct (Hp eq_refl) as (p & Ef & Hq).
    rewrite find_rule_rename.
    2:{ intros a Ha E. apply Hinj; auto. apply find_rule_in in Ef as [Hpin <-]. apply in_map_iff. eauto. }
    rewrite Ef. cbn [option_map].
    assert (Hq' : star_free p = true \/ True) by now right.
    assert (Rp : rule_refs (fn_table fe) (S (length (map (rename rho) rules))) (map (rename rho) rules) true (rename rho p)
                 = rule_refs (fn_table fe) (S (length rules)) rules true p).
    { cbn [rule_refs rename r_sk r_sv r_sjoin]. destruct (r_sk p); try discriminate; reflexivity. }
    rewrite Rp. cbn [rename r_src r_sk r_sv].
    match goal with |- ?L = ?R =>
      match L with context [mat_terms cfg fe ?a parent_prefix] =>
        match R with context [mat_terms cfg fe ?b parent_prefix] => rewrite (mat_terms_fields cfg fe a b) by reflexivity end end end.
    reflexivity.
  Qed.
End Rename.
