(* C03: the head-prefix scan of the partitioner separates only keys that are prefix-incomparable; the equality scan
   separates only different keys; insertion sort sorts. *)
From Coq Require Import String Lia Sorted Permutation.
From Morph Require Import Base.UStr Model.Terms Model.Data Model.Engine Model.Partition Proofs.UStrP Proofs.DataP.
Local Open Scope N_scope.

(* ---- the scan on plain keys, current head given *)
Fixpoint scan (g : nat) (h : ustr) (l : list ustr) : list nat :=
  match l with
  | [] => []
  | k :: l' => if prefixb h k then g :: scan g h l' else S g :: scan (S g) k l'
  end.
Definition incomp a b := prefixb a b = false /\ prefixb b a = false.

Lemma SS_tail h k l : StronglySorted le (h :: k :: l) -> StronglySorted le (h :: l).
Proof. intros H. inversion H as [|? ? H1 H2]; subst. inversion H1; subst. inversion H2; subst. constructor; auto. Qed.
Lemma SS_drop h l : StronglySorted le (h :: l) -> StronglySorted le l.
Proof. intros H; inversion H; auto. Qed.

Lemma scan_spec : forall l g h, StronglySorted le (h :: l) ->
  Forall2 (fun k lab => (lab = g /\ prefixb h k = true) \/ (g < lab /\ prefixb h k = false))%nat l (scan g h l).
Proof.
  induction l as [|k l IH]; intros g h SS; simpl; [constructor|].
  destruct (prefixb h k) eqn:Hp.
  - constructor; [left; auto|]. apply IH. eapply SS_tail; eauto.
  - constructor; [right; split; [lia|auto]|].
    assert (SSk : StronglySorted le (k :: l)) by (eapply SS_drop; eauto).
    specialize (IH (S g) k SSk).
    inversion SS as [|? ? _ Hh]; subst. inversion Hh as [|? ? Hhk Hhl]; subst.
    inversion SSk as [|? ? _ Hk]; subst.
    clear SS SSk Hh. revert IH Hhl Hk. generalize (scan (S g) k l). induction l as [|x l IHl]; intros labs F2 Hhl Hk.
    + inversion F2; constructor.
    + inversion F2 as [|? lab ? labs' Hx F2']; subst. inversion Hhl; subst. inversion Hk; subst. constructor.
      * right. split.
        -- destruct Hx as [[-> _]|[Hlt _]]; lia.
        -- destruct (prefixb h x) eqn:E; auto. exfalso.
           assert (prefixb h k = true) by (eapply lex_interval; eauto). congruence.
      * apply IHl; auto.
Qed.

Theorem scan_separates : forall l g h, StronglySorted le (h :: l) ->
  forall i j ki kj li lj, (i < j)%nat ->
    nth_error l i = Some ki -> nth_error l j = Some kj ->
    nth_error (scan g h l) i = Some li -> nth_error (scan g h l) j = Some lj ->
    li <> lj -> incomp ki kj.
Proof.
  induction l as [|k l IH]; intros g h SS i j ki kj li lj Hij Hi Hj Li Lj Hne.
  - destruct i; discriminate.
  - destruct j as [|j]; [lia|]. simpl in Hj.
    assert (SSk : StronglySorted le (k :: l)) by (eapply SS_drop; eauto).
    destruct i as [|i].
    + simpl in Hi. injection Hi as <-. simpl in Li, Lj. destruct (prefixb h k) eqn:Hp; simpl in Li, Lj; injection Li as <-.
      * pose proof (scan_spec l g h (SS_tail _ _ _ SS)) as F2.
        assert (Hkj : prefixb h kj = false).
        { clear - F2 Hj Lj Hne. revert j Hj Lj. induction F2 as [|x lab l labs Hx F2 IHF]; intros [|j] Hj Lj; simpl in *; try discriminate.
          - injection Hj as ->. injection Lj as ->. destruct Hx as [[-> _]|[_ ?]]; congruence.
          - eauto. }
        inversion SSk as [|? ? _ Hk]; subst.
        assert (Hle : le k kj) by (rewrite Forall_forall in Hk; apply Hk; eapply nth_error_In; eauto).
        split.
        -- destruct (prefixb k kj) eqn:E; auto. rewrite (prefix_trans _ _ _ Hp E) in Hkj. discriminate.
        -- destruct (prefixb kj k) eqn:E; auto. apply prefix_le in E.
           rewrite (leb_antisym _ _ Hle E) in Hp. congruence.
      * pose proof (scan_spec l (S g) k SSk) as F2.
        assert (Hkj : prefixb k kj = false).
        { clear - F2 Hj Lj Hne. revert j Hj Lj. induction F2 as [|x lab l labs Hx F2 IHF]; intros [|j] Hj Lj; simpl in *; try discriminate.
          - injection Hj as ->. injection Lj as ->. destruct Hx as [[-> _]|[_ ?]]; congruence.
          - eauto. }
        inversion SSk as [|? ? _ Hk]; subst.
        assert (Hle : le k kj) by (rewrite Forall_forall in Hk; apply Hk; eapply nth_error_In; eauto).
        split; auto. destruct (prefixb kj k) eqn:E; auto. apply prefix_le in E.
        rewrite <- (leb_antisym _ _ Hle E) in Hkj. rewrite prefixb_refl in Hkj. discriminate.
    + simpl in Hi, Li, Lj. destruct (prefixb h k) eqn:Hp; simpl in Li, Lj.
      * eapply (IH g h (SS_tail _ _ _ SS) i j); eauto. lia.
      * eapply (IH (S g) k SSk i j); eauto. lia.
Qed.

(* ---- the partitioner's scan: optional head (the reserved string at the start), flagged elements (blank nodes) get 0 *)
Definition unflagged (l : list (bool * ustr)) : list ustr := map snd (filter (fun fk => negb (fst fk)) l).
Fixpoint unflagged_labels (l : list (bool * ustr)) (labs : list nat) : list nat :=
  match l, labs with
  | (true, _) :: r, _ :: ls => unflagged_labels r ls
  | (false, _) :: r, x :: ls => x :: unflagged_labels r ls
  | _, _ => []
  end.
Lemma scan_prefix_some l : forall g h, unflagged_labels l (scan_prefix g (Some h) l) = scan g h (unflagged l).
Proof.
  induction l as [|[[|] k] l IH]; intros g h; simpl; auto.
  destruct (prefixb h k); simpl; f_equal; apply IH.
Qed.
Lemma scan_prefix_none l : forall g, unflagged_labels l (scan_prefix g None l) =
  match unflagged l with [] => [] | k :: r => S g :: scan (S g) k r end.
Proof.
  induction l as [|[[|] k] l IH]; intro g; simpl; auto. f_equal. apply scan_prefix_some.
Qed.
(* flagged elements are in group 0, the others in a group >= 1 (the scan starts from group 0) *)
Lemma scan_prefix_flagged l : forall g h i fk lab, nth_error l i = Some fk -> nth_error (scan_prefix g h l) i = Some lab ->
  if fst fk then lab = O else (g <= lab)%nat /\ (h = None -> g < lab)%nat.
Proof.
  induction l as [|[[|] k] l IH]; intros g h i fk lab Hi Li; [destruct i; discriminate| |].
  - destruct i as [|i]; simpl in *; [injection Hi as <-; injection Li as <-; reflexivity|eapply IH; eauto].
  - simpl in Li. destruct (match h with Some h' => prefixb h' k | None => false end) eqn:E.
    + destruct i as [|i]; simpl in *.
      * injection Hi as <-. injection Li as <-. simpl. split; [lia|]. intros ->. discriminate.
      * specialize (IH g h i fk lab Hi Li). destruct (fst fk); auto.
    + destruct i as [|i]; simpl in *.
      * injection Hi as <-. injection Li as <-. simpl. split; lia.
      * specialize (IH (S g) (Some k) i fk lab Hi Li). destruct (fst fk); auto. destruct IH as [A B]. split; [lia|]. intros _. lia.
Qed.

Lemma sorted_nth_le {A} (R : A -> A -> Prop) l : StronglySorted R l -> forall m j x y, (m < j)%nat ->
  nth_error l m = Some x -> nth_error l j = Some y -> R x y.
Proof.
  induction 1 as [|a l SS IH Ha]; intros m j x y Hmj Hx Hy; [destruct m; discriminate|].
  destruct j as [|j]; [lia|]. destruct m as [|m]; simpl in *.
  - injection Hx as <-. rewrite Forall_forall in Ha. apply Ha. eapply nth_error_In; eauto.
  - eapply (IH m j); eauto. lia.
Qed.
(* ---- the equality scan (all maps constant): different groups only for different keys *)
Lemma scan_eq_same l : forall g h i j ki kj li lj, StronglySorted le l -> (i < j)%nat ->
  nth_error l i = Some ki -> nth_error l j = Some kj ->
  nth_error (scan_eq g h l) i = Some li -> nth_error (scan_eq g h l) j = Some lj -> ki = kj -> li = lj.
Proof.
  induction l as [|k l IH]; intros g h i j ki kj li lj SS Hij Hi Hj Li Lj E; [destruct i; discriminate|].
  destruct j as [|j]; [lia|]. assert (SSl : StronglySorted le l) by (inversion SS; auto).
  destruct i as [|i].
  - simpl in Hi. injection Hi as <-. subst kj. simpl in Hj.
    (* every element between k and the j-th equals k *)
    assert (Run : forall m x, (m <= j)%nat -> nth_error l m = Some x -> x = k).
    { intros m x Hm Hx. inversion SS as [|? ? SSl' Hk]; subst. rewrite Forall_forall in Hk.
      assert (le k x) by (apply Hk; eapply nth_error_In; eauto).
      assert (le x k).
      { destruct (Nat.eq_dec m j) as [->|Hne]; [rewrite Hj in Hx; injection Hx as <-; apply leb_refl|].
        eapply (sorted_nth_le le l SSl' m j); eauto. lia. }
      apply leb_antisym; auto. }
    simpl in Li, Lj.
    destruct (match h with Some h' => ueqb h' k | None => false end) eqn:Eh; simpl in Li, Lj; injection Li as <-.
    + (* k stays in group g with head h = k; all following equal elements too *)
      clear - Run Lj Eh. revert j Run Lj. generalize dependent l. induction l as [|x l IHl]; intros j Run Lj; [destruct j; discriminate|].
      assert (x = k) by (apply (Run O x); [lia|reflexivity]). subst x. simpl in Lj. rewrite Eh in Lj.
      destruct j as [|j]; simpl in Lj; [injection Lj; auto|]. apply (IHl j); auto. intros m y Hm Hy. apply (Run (S m) y); [lia|exact Hy].
    + clear - Run Lj. assert (Ek : ueqb k k = true) by apply ueqb_refl.
      revert j Run Lj. generalize dependent l. induction l as [|x l IHl]; intros j Run Lj; [destruct j; discriminate|].
      assert (x = k) by (apply (Run O x); [lia|reflexivity]). subst x. simpl in Lj. rewrite Ek in Lj.
      destruct j as [|j]; simpl in Lj; [injection Lj; auto|]. apply (IHl j); auto. intros m y Hm Hy. apply (Run (S m) y); [lia|exact Hy].
  - simpl in Hi, Hj, Li, Lj. destruct (match h with Some h' => ueqb h' k | None => false end); simpl in Li, Lj; (eapply (IH _ _ i j ki kj li lj SSl); [lia|eauto..]) .
Qed.

(* ---- insertion sort *)
Section Sorted.
  Context {A : Type} (key : A -> ustr).
  Definition kle (a b : A) : bool := leb (key a) (key b).
  Lemma insert_perm x l : Permutation (insert kle x l) (x :: l).
  Proof. induction l as [|y l IH]; simpl; auto. destruct (kle x y); auto. rewrite IH. apply perm_swap. Qed.
  Lemma isort_perm l : Permutation (isort kle l) l.
  Proof. induction l as [|x l IH]; simpl; auto. unfold isort in *. simpl. rewrite insert_perm. now constructor. Qed.
  Lemma insert_sorted x l : StronglySorted (fun a b => le (key a) (key b)) l -> StronglySorted (fun a b => le (key a) (key b)) (insert kle x l).
  Proof.
    induction 1 as [|y l SS IH Hy]; simpl; [repeat constructor|].
    unfold kle at 1. destruct (leb (key x) (key y)) eqn:E.
    - constructor; [constructor; auto|]. constructor; [exact E|]. rewrite Forall_forall in *. intros z Hz. eapply leb_trans; [exact E|]. now apply Hy.
    - constructor; auto. assert (Hyx : le (key y) (key x)) by (destruct (leb_total (key x) (key y)) as [H|H]; [unfold le in H; congruence|exact H]).
      rewrite Forall_forall in *. intros z Hz. apply (Permutation_in _ (insert_perm x l)) in Hz. destruct Hz as [<-|Hz]; auto.
  Qed.
  Lemma isort_sorted l : StronglySorted (fun a b => le (key a) (key b)) (isort kle l).
  Proof. induction l as [|x l IH]; simpl; [constructor|]. unfold isort in *. simpl. now apply insert_sorted. Qed.
End Sorted.

(* ---- putting it together for the head-prefix scan as the partitioner runs it *)
Lemma ss_unflagged l : StronglySorted le (map snd l) -> StronglySorted le (unflagged l).
Proof.
  unfold unflagged. induction l as [|[f k] l IH]; simpl; intro H; [constructor|].
  inversion H as [|? ? SS Hk]; subst. destruct f; simpl; [auto|]. constructor; auto.
  rewrite Forall_forall in *. intros x Hx. apply Hk. apply in_map_iff in Hx as ((f' & k') & <- & Hin). apply filter_In in Hin as [Hin _].
  apply in_map_iff. exists (f', k'). auto.
Qed.
Theorem prefix_scan_safe l : StronglySorted le (map snd l) ->
  forall i j ki kj li lj, (i < j)%nat ->
    nth_error (unflagged l) i = Some ki -> nth_error (unflagged l) j = Some kj ->
    nth_error (unflagged_labels l (scan_prefix 0 None l)) i = Some li ->
    nth_error (unflagged_labels l (scan_prefix 0 None l)) j = Some lj ->
    li <> lj -> incomp ki kj.
Proof.
  intros SS i j ki kj li lj Hij Hi Hj Li Lj Hne. apply ss_unflagged in SS. rewrite scan_prefix_none in Li, Lj.
  destruct (unflagged l) as [|k r] eqn:E; [destruct i; discriminate|].
  destruct j as [|j]; [lia|]. simpl in Hj, Lj. destruct i as [|i].
  - simpl in Hi, Li. injection Hi as Hk0. subst ki. injection Li as Hl0. subst li.
    pose proof (scan_spec r 1%nat k SS) as F2.
    assert (Hkj : prefixb k kj = false).
    { clear - F2 Hj Lj Hne. revert j Hj Lj. induction F2 as [|x lab l0 labs Hx F2 IHF]; intros [|j] Hj Lj; simpl in *; try discriminate.
      - injection Hj as ->. injection Lj as ->. destruct Hx as [[-> _]|[_ ?]]; congruence.
      - eauto. }
    inversion SS as [|? ? _ Hk]; subst.
    assert (Hle : le k kj) by (rewrite Forall_forall in Hk; apply Hk; eapply nth_error_In; eauto).
    split; auto. destruct (prefixb kj k) eqn:E2; auto. apply prefix_le in E2.
    rewrite <- (leb_antisym _ _ Hle E2) in Hkj. rewrite prefixb_refl in Hkj. discriminate.
  - simpl in Hi, Li. eapply (scan_separates r 1%nat k SS i j); eauto. lia.
Qed.
(* the input the model gives the scan is sorted *)
Lemma scan_input_sorted {A} (key : A -> ustr) (flag : A -> bool) ks :
  StronglySorted le (map snd (map (fun k => (flag k, key k)) (isort (kle key) ks))).
Proof.
  rewrite map_map. simpl. pose proof (isort_sorted key ks) as H. induction H as [|a l SS IH Ha]; simpl; constructor; auto.
  rewrite Forall_forall in *. intros x Hx. apply in_map_iff in Hx as (b & <- & Hb). now apply Ha.
Qed.
