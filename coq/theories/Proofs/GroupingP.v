(* C02 core: the union over mapping groups equals the union over rules, for every labelling. *)
From Coq Require Import String Lia.
From Morph Require Import Base.UStr Model.Terms Model.Data Model.Engine Model.Partition Model.Grouping Proofs.DataP.
Local Open Scope N_scope.

Lemma mem_dedup x l : In x (dedup l) <-> In x l.
Proof.
  induction l as [|y l IH]; simpl; [tauto|].
  destruct (mem y l) eqn:E.
  - rewrite IH. split; [auto|]. intros [->|H]; auto. now apply mem_In.
  - simpl. rewrite IH. tauto.
Qed.

Lemma rmap_all_ok {A B} (f : A -> result B) l ys : rmap_all f l = Ok ys -> Forall2 (fun x y => f x = Ok y) l ys.
Proof.
  revert ys. induction l as [|x l IH]; simpl; intros ys H.
  - injection H as <-. constructor.
  - destruct (f x) as [y|e] eqn:E; [|discriminate]. destruct (rmap_all f l) as [ys'|e] eqn:E2; [|discriminate].
    injection H as <-. constructor; auto.
Qed.
Lemma rmap_all_err {A B} (f : A -> result B) l e : rmap_all f l = Err e -> exists x, In x l /\ f x = Err e.
Proof.
  induction l as [|x l IH]; simpl; intro H; [discriminate|].
  destruct (f x) as [y|e'] eqn:E.
  - destruct (rmap_all f l) as [ys'|e''] eqn:E2; [discriminate|]. injection H as ->. destruct (IH eq_refl) as (z & Hz & Ez). eauto.
  - injection H as ->. eauto.
Qed.
Lemma rmap_all_total {A B} (f : A -> result B) l : (forall x, In x l -> exists y, f x = Ok y) -> exists ys, rmap_all f l = Ok ys.
Proof.
  induction l as [|x l IH]; simpl; intro H; [eauto|].
  destruct (H x (or_introl eq_refl)) as (y & ->). destruct IH as (ys & ->); eauto.
Qed.
Lemma Forall2_concat_in {A B} (f : A -> result (list B)) l ys z :
  Forall2 (fun x y => f x = Ok y) l ys -> (In z (concat ys) <-> exists x y, In x l /\ f x = Ok y /\ In z y).
Proof.
  induction 1 as [|x y l ys Hxy F IH]; simpl.
  - split; [tauto|]. intros (?&?&[]&_).
  - rewrite in_app_iff, IH. split.
    + intros [H|(x'&y'&Hx&E&Hz)]; [exists x, y; auto|exists x', y'; auto].
    + intros (x'&y'&[->|Hx]&E&Hz); [left; congruence|right; eauto].
Qed.

Lemma Forall2_in_l {A B} (R : A -> B -> Prop) l ys x : Forall2 R l ys -> In x l -> exists y, In y ys /\ R x y.
Proof. induction 1 as [|a b l' ys' Hab F IH]; simpl; [tauto|]. intros [->|H]; [eauto|]. destruct (IH H) as (y & Hy & Ry). eauto. Qed.

Lemma label_eqb_eq a b : label_eqb a b = true <-> a = b.
Proof. unfold label_eqb. destruct (list_eq_dec Nat.eq_dec a b); split; congruence. Qed.
Lemma distinct_labels_in x l : In x (distinct_labels l) <-> In x l.
Proof.
  induction l as [|y l IH]; simpl; [tauto|].
  destruct (existsb (label_eqb y) (distinct_labels l)) eqn:E.
  - rewrite IH. split; auto. intros [->|H]; auto. apply existsb_exists in E as (z & Hz & Ez). apply label_eqb_eq in Ez; subst. now apply IH.
  - simpl. rewrite IH. tauto.
Qed.

Section G.
  Variable cfg : ecfg.
  Variable fe : fenv.
  Variable rules : list rule.
  Variable get_data : ustr -> list ustr -> result frame.
  Variable lab : rule -> label.
  Notation rt := (rule_triples cfg fe rules get_data).

  Lemma in_group r : In r (asserted_rules rules) -> In r (group_of_label rules lab (lab r)) /\ In (lab r) (group_labels rules lab).
  Proof.
    intro H. split.
    - unfold group_of_label. apply filter_In. split; auto. now apply label_eqb_eq.
    - unfold group_labels. apply distinct_labels_in. now apply in_map.
  Qed.
  Lemma group_sub l r : In r (group_of_label rules lab l) -> In r (asserted_rules rules).
  Proof. unfold group_of_label. intro H. now apply filter_In in H. Qed.

  (* a run fails under the grouping iff it fails without it *)
  Lemma grouped_err_iff :
    (exists e, materialize_grouped cfg fe rules get_data lab = Err e) <-> (exists e, materialize_rules cfg fe rules get_data = Err e).
  Proof.
    unfold materialize_grouped, groups_results, materialize_rules. fold (asserted_rules rules). split; intros (e & H).
    - destruct (rmap_all rt (asserted_rules rules)) as [ls|e'] eqn:E; [|simpl; eauto]. exfalso.
      apply rmap_all_ok in E.
      destruct (rmap_all (group_triples cfg fe rules get_data) (map (group_of_label rules lab) (group_labels rules lab))) as [gs|e'] eqn:E2; [simpl in H; discriminate|].
      apply rmap_all_err in E2 as (g & Hg & Eg). apply in_map_iff in Hg as (l & <- & Hl).
      unfold group_triples in Eg. destruct (rmap_all rt (group_of_label rules lab l)) as [x|e''] eqn:E3; [simpl in Eg; discriminate|].
      apply rmap_all_err in E3 as (r & Hr & Er). apply group_sub in Hr.
      clear - E Hr Er. induction E as [|x y l' ys Hxy F IH]; simpl in Hr; [tauto|]. destruct Hr as [->|Hr]; [congruence|auto].
    - destruct (rmap_all rt (asserted_rules rules)) as [ls|e'] eqn:E; [simpl in H; discriminate|].
      apply rmap_all_err in E as (r & Hr & Er).
      destruct (rmap_all (group_triples cfg fe rules get_data) (map (group_of_label rules lab) (group_labels rules lab))) as [gs|e''] eqn:E2; [|simpl; eauto].
      exfalso. apply rmap_all_ok in E2. destruct (in_group r Hr) as [Hg Hl].
      assert (Hin : In (group_of_label rules lab (lab r)) (map (group_of_label rules lab) (group_labels rules lab))) by now apply in_map.
      clear - E2 Hin Hg Er. induction E2 as [|x y l' ys Hxy F IH]; simpl in Hin; [tauto|]. destruct Hin as [->|Hin]; auto.
      unfold group_triples in Hxy. destruct (rmap_all rt (group_of_label rules lab (lab r))) as [z|e3] eqn:E3; [|simpl in Hxy; discriminate].
      apply rmap_all_ok in E3. clear - E3 Hg Er. induction E3 as [|a b l2 bs Hab F2 IH2]; simpl in Hg; [tauto|]. destruct Hg as [->|Hg]; [congruence|auto].
  Qed.

  (* and when both succeed they hold the same statements *)
  Lemma grouped_same_statements l1 l2 :
    materialize_grouped cfg fe rules get_data lab = Ok l1 -> materialize_rules cfg fe rules get_data = Ok l2 -> forall x, In x l1 <-> In x l2.
  Proof.
    unfold materialize_grouped, groups_results, materialize_rules. fold (asserted_rules rules). intros H1 H2 x.
    destruct (rmap_all (group_triples cfg fe rules get_data) (map (group_of_label rules lab) (group_labels rules lab))) as [gs|e] eqn:E1; [|discriminate].
    destruct (rmap_all rt (asserted_rules rules)) as [ls|e] eqn:E2; [|discriminate].
    simpl in H1, H2. injection H1 as <-. injection H2 as <-. rewrite !mem_dedup.
    apply rmap_all_ok in E1, E2.
    rewrite (Forall2_concat_in _ _ _ x E1), (Forall2_concat_in _ _ _ x E2). split.
    - intros (g & y & Hg & Eg & Hx). apply in_map_iff in Hg as (l & <- & Hl).
      unfold group_triples in Eg. destruct (rmap_all rt (group_of_label rules lab l)) as [zs|e] eqn:E3; [|simpl in Eg; discriminate].
      simpl in Eg. injection Eg as <-. rewrite mem_dedup in Hx. apply rmap_all_ok in E3.
      apply (Forall2_concat_in _ _ _ x E3) in Hx as (r & yr & Hr & Er & Hxr). exists r, yr. split; [now apply group_sub in Hr|auto].
    - intros (r & yr & Hr & Er & Hxr). destruct (in_group r Hr) as [Hg Hl].
      assert (Hin : In (group_of_label rules lab (lab r)) (map (group_of_label rules lab) (group_labels rules lab))) by now apply in_map.
      destruct (Forall2_in_l _ _ _ _ E1 Hin) as (y & Hy & Ey).
      exists (group_of_label rules lab (lab r)), y. repeat split; auto.
      unfold group_triples in Ey. destruct (rmap_all rt (group_of_label rules lab (lab r))) as [zs|e] eqn:E3; [|simpl in Ey; discriminate].
      simpl in Ey. injection Ey as <-. rewrite mem_dedup. apply rmap_all_ok in E3. apply (Forall2_concat_in _ _ _ x E3). eauto.
  Qed.
End G.
