(* C08: where the normalisation puts graph maps, and what the engine does with rr:defaultGraph and with N-TRIPLES. *)
From Coq Require Import String Lia.
From Morph Require Import Base.UStr Gen.Tables Model.Terms Model.Data Model.Engine Model.Mapping Proofs.DataP.
Local Open Scope N_scope.

Definition placed_graphs (t : tmapdef) (p : pom) : list tmap :=
  match p_graphs p ++ t_sgraphs t with [] => [const_iri Tables.c_rml_default_graph] | gs => gs end.

Lemma prepare_poms t :
  t_poms (complete_default_graph (sgraphs_to_pom (class_to_pom t))) =
  map (fun p => {| p_preds := p_preds p; p_objs := p_objs p; p_graphs := placed_graphs t p |}) (t_poms t ++ map class_pom (t_classes t)).
Proof.
  unfold complete_default_graph, sgraphs_to_pom, class_to_pom. simpl. rewrite map_map. apply map_ext. intro p.
  unfold default_graph, placed_graphs. simpl. destruct (p_graphs p ++ t_sgraphs t); reflexivity.
Qed.
(* every predicate-object map ends up with exactly the graph maps of the subject map and its own; the default graph iff
   there is none at all *)
Lemma pom_graphs t p : In p (t_poms t) ->
  exists p', In p' (t_poms (complete_default_graph (sgraphs_to_pom (class_to_pom t)))) /\ p_preds p' = p_preds p /\ p_objs p' = p_objs p /\
             p_graphs p' = placed_graphs t p.
Proof.
  intro H. rewrite prepare_poms. eexists. split; [apply in_map; apply in_or_app; left; exact H|]. simpl. auto.
Qed.
(* class declarations become predicate-object maps placed in the subject map's graphs *)
Lemma class_graphs t c : In c (t_classes t) ->
  exists p', In p' (t_poms (complete_default_graph (sgraphs_to_pom (class_to_pom t)))) /\
             p_preds p' = [const_iri Tables.c_rdf_type] /\ p_objs p' = [plain_obj (const_iri c)] /\
             p_graphs p' = match t_sgraphs t with [] => [const_iri Tables.c_rml_default_graph] | gs => gs end.
Proof.
  intro H. rewrite prepare_poms. eexists. split; [apply in_map; apply in_or_app; right; apply in_map; exact H|]. simpl. auto.
Qed.
Lemma default_graph_iff t p : placed_graphs t p = [const_iri Tables.c_rml_default_graph] <->
  (p_graphs p ++ t_sgraphs t = [] \/ p_graphs p ++ t_sgraphs t = [const_iri Tables.c_rml_default_graph]).
Proof. unfold placed_graphs. destruct (p_graphs p ++ t_sgraphs t) eqn:E; split; auto; intros [H|H]; auto; discriminate. Qed.

(* the engine: a rule whose graph map is the constant rr:defaultGraph gets an empty graph column; outside the outermost
   level or with N-TRIPLES no graph term is appended at all *)
Lemma finish_default_graph cfg fe rl r l : c_nquads cfg = true -> r_gk rl = KConst -> r_gv rl = Tables.c_rml_default_graph ->
  finish_row cfg fe 0 rl r = Ok l -> forall r', In r' l -> exists t, rget col_triple r' = Some (t ++ [32]).
Proof.
  intros Hq Hk Hv. unfold finish_row. destruct (rget col_subject r) as [s|]; [|discriminate]. destruct (rget col_predicate r) as [p|]; [|discriminate].
  destruct (rget col_object r) as [o|]; [|discriminate]. rewrite Hq, Hk, Hv, ueqb_refl. cbn [Nat.eqb andb is_plain negb rbind rmap_all].
  set (tr := s ++ [32] ++ p ++ [32] ++ o).
  rewrite (rget_rset_other col_graph col_triple [] _ eq_refl), !rget_rset_same. cbn [rbind]. intro H. injection H as <-.
  intros r' [<-|[]]. exists tr. rewrite !rget_rdrop_other by reflexivity. apply rget_rset_same.
Qed.
Lemma finish_ntriples cfg fe rl r l : c_nquads cfg = false -> finish_row cfg fe 0 rl r = Ok l ->
  exists s p o, rget col_subject r = Some s /\ rget col_predicate r = Some p /\ rget col_object r = Some o /\
                forall r', In r' l -> rget col_triple r' = Some (s ++ [32] ++ p ++ [32] ++ o).
Proof.
  intros Hq. unfold finish_row. destruct (rget col_subject r) as [s|]; [|discriminate]. destruct (rget col_predicate r) as [p|]; [|discriminate].
  destruct (rget col_object r) as [o|]; [|discriminate]. rewrite Hq. cbn [Nat.eqb andb rbind]. intro H. injection H as <-.
  exists s, p, o. repeat split; auto. intros r' [<-|[]]. rewrite !rget_rdrop_other by reflexivity. apply rget_rset_same.
Qed.
