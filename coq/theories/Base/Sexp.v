(* S-expressions: the single wire format between the harness and the model (both execution routes). *)
From Coq Require Import String.
From Morph Require Import Base.UStr.
Local Open Scope N_scope.

Inductive sexp := A (s : ustr) | L (l : list sexp).

Definition sx_err (msg : ustr) : sexp := L [A (u "error"); A msg].
Definition sx_bool (b : bool) : sexp := A (if b then u "true" else u "false").
Definition sx_nat (n : nat) : sexp := A (dec_of_nat n).
Definition sx_N (n : N) : sexp := A (dec_of_N n).
Definition sx_strs (l : list ustr) : sexp := L (map A l).
Definition sx_opt (o : option ustr) : sexp := match o with None => L [] | Some s => L [A s] end.

Definition de_str (x : sexp) : option ustr := match x with A s => Some s | _ => None end.
Definition de_list (x : sexp) : option (list sexp) := match x with L l => Some l | _ => None end.
Definition de_bool (x : sexp) : option bool :=
  match x with A s => if ueqb s (u "true") then Some true else if ueqb s (u "false") then Some false else None | _ => None end.
Definition de_N (x : sexp) : option N := match x with A s => N_of_dec s | _ => None end.
Definition de_nat (x : sexp) : option nat := option_map N.to_nat (de_N x).
Fixpoint de_all {T} (f : sexp -> option T) (l : list sexp) : option (list T) :=
  match l with
  | [] => Some []
  | x :: r => match f x, de_all f r with Some a, Some b => Some (a :: b) | _, _ => None end
  end.
Definition de_strs (x : sexp) : option (list ustr) := match x with L l => de_all de_str l | _ => None end.
Definition de_optstr (x : sexp) : option (option ustr) :=
  match x with L [] => Some None | L [A s] => Some (Some s) | _ => None end.
(* option bind *)
Notation "'do' x <- e ; f" := (match e with Some x => f | None => None end) (at level 200, x pattern, e at level 100, f at level 200).
