(* Code-point strings: the model of Python `str`.  Definitions only; lemmas live in Proofs/. *)
From Coq Require Import String Ascii.
From Coq Require Export List NArith ZArith Bool.
Export ListNotations.
Local Open Scope N_scope.

Definition ustr := list N.

(* ASCII literals in model source: [u "abc"] *)
Definition u (x : string) : ustr := map (fun c => N_of_ascii c) (list_ascii_of_string x).
Arguments u _%string_scope.

Fixpoint ueqb (a b : ustr) : bool :=
  match a, b with
  | [], [] => true
  | x :: a', y :: b' => N.eqb x y && ueqb a' b'
  | _, _ => false
  end.

Fixpoint prefixb (p s : ustr) : bool :=
  match p, s with
  | [], _ => true
  | a :: p', b :: s' => N.eqb a b && prefixb p' s'
  | _ :: _, [] => false
  end.

(* Python's str order (code point lexicographic) *)
Fixpoint leb (a b : ustr) : bool :=
  match a, b with
  | [], _ => true
  | _ :: _, [] => false
  | x :: a', y :: b' => if N.ltb x y then true else if N.eqb x y then leb a' b' else false
  end.
Definition le a b := leb a b = true.

Definition suffixb (p s : ustr) : bool := prefixb (rev p) (rev s).

(* Python  s.split(sep)  for non-empty sep: left-to-right, non-overlapping.  Structural: `skip` counts the
   remaining characters of a separator occurrence that has just been recognised. *)
Fixpoint split_aux (sep : ustr) (s : ustr) (skip : nat) (cur : ustr) : list ustr :=
  match s with
  | [] => [rev cur]
  | x :: r =>
      match skip with
      | S k => split_aux sep r k cur
      | O => if prefixb sep s then rev cur :: split_aux sep r (length sep - 1) [] else split_aux sep r O (x :: cur)
      end
  end.
Definition split_on (sep s : ustr) : list ustr := split_aux sep s O [].
Fixpoint join (sep : ustr) (l : list ustr) : ustr :=
  match l with [] => [] | [a] => a | a :: l' => a ++ sep ++ join sep l' end.
(* str.replace, old non-empty *)
Definition replace_all (old new s : ustr) : ustr := join new (split_on old s).
(* `sub in s` for non-empty sub *)
Fixpoint contains (sub s : ustr) : bool :=
  match s with
  | [] => match sub with [] => true | _ => false end
  | _ :: r => prefixb sub s || contains sub r
  end.
(* one step of the materializer's template loop: cut at the first occurrence of pat *)
Definition cut_first (pat t : ustr) : ustr * ustr :=
  match split_on pat t with [] => ([], []) | h :: tl => (h, join pat tl) end.

(* str.replace for a one-code-point pattern *)
Definition replace1 (c : N) (r : ustr) (s : ustr) : ustr := flat_map (fun x => if N.eqb x c then r else [x]) s.

(* ASCII case mapping (the model's domain for upper()/lower() is ASCII; see DESIGN) *)
Definition up1 (c : N) : N := if (97 <=? c) && (c <=? 122) then c - 32 else c.
Definition low1 (c : N) : N := if (65 <=? c) && (c <=? 90) then c + 32 else c.
Definition upper (s : ustr) : ustr := map up1 s.
Definition lower (s : ustr) : ustr := map low1 s.

(* Python str.strip() restricted to ASCII whitespace *)
Definition is_ws (c : N) : bool := (c =? 32) || ((9 <=? c) && (c <=? 13)) || ((28 <=? c) && (c <=? 31)).
Fixpoint lstrip (s : ustr) : ustr := match s with c :: r => if is_ws c then lstrip r else s | [] => [] end.
Definition strip (s : ustr) : ustr := rev (lstrip (rev (lstrip s))).

(* decimal numerals *)
Definition is_digit (c : N) : bool := (48 <=? c) && (c <=? 57).
Fixpoint dec_aux (acc : N) (s : ustr) : option N :=
  match s with
  | [] => Some acc
  | c :: r => if is_digit c then dec_aux (acc * 10 + (c - 48)) r else None
  end.
Definition N_of_dec (s : ustr) : option N := match s with [] => None | _ => dec_aux 0 s end.
(* printing: structural on a fuel that is the binary size bound; digits of n, n < 10^fuel *)
Fixpoint dec_digits (fuel : nat) (n : N) (acc : ustr) : ustr :=
  match fuel with
  | O => acc
  | S f => let d := 48 + n mod 10 in
           let q := n / 10 in
           if q =? 0 then d :: acc else dec_digits f q (d :: acc)
  end.
Definition dec_of_N (n : N) : ustr := dec_digits (S (N.to_nat (N.size n))) n [].
Definition dec_of_Z (z : Z) : ustr :=
  match z with
  | Z0 => [48]
  | Zpos p => dec_of_N (Npos p)
  | Zneg p => 45 :: dec_of_N (Npos p)
  end.
Definition dec_of_nat (n : nat) : ustr := dec_of_N (N.of_nat n).

(* association lists keyed by strings *)
Fixpoint assoc {A} (k : ustr) (l : list (ustr * A)) : option A :=
  match l with
  | [] => None
  | (k', v) :: r => if ueqb k k' then Some v else assoc k r
  end.
Fixpoint mem (k : ustr) (l : list ustr) : bool :=
  match l with [] => false | x :: r => ueqb k x || mem k r end.
Fixpoint dedup (l : list ustr) : list ustr :=
  match l with [] => [] | x :: r => if mem x r then dedup r else x :: dedup r end.
(* first-occurrence order dedup (keeps the first) *)
Fixpoint dedup_first_aux (seen : list ustr) (l : list ustr) : list ustr :=
  match l with
  | [] => []
  | x :: r => if mem x seen then dedup_first_aux seen r else x :: dedup_first_aux (x :: seen) r
  end.
Definition dedup_first := dedup_first_aux [].
