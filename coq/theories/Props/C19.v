(* C19 — every configuration is honoured or rejected, never silently misread.  Statements only, over the option tables
   REGENERATED from config.py on every run. *)
From Morph Require Import Base.UStr Gen.Tables Model.Data Model.Config Proofs.ConfigP.

(* options for which an empty value is not valid (output_dir, output_format, only_printable_chars, infer_sql_datatypes,
   logging_level, number_of_processes, mapping_partitioning ...): absent or empty takes the documented default, every
   other value is kept -- for every configuration section *)
Theorem absent_or_empty_takes_default : forall m k d, In (k, d) Tables.options_empty_non_valid ->
  cget (complete m) k = match cget m k with Some v => if ueqb v [] then Some d else Some v | None => Some d end.
Proof. exact complete_non_valid. Qed.
Print Assumptions absent_or_empty_takes_default.

(* options for which an empty value is kept (output_file, na_values, safe_percent_encoding, udfs, ...): only an absent
   option takes the default *)
Theorem absent_takes_default : forall m k d, In (k, d) Tables.options_empty_valid ->
  cget (complete m) k = match cget m k with Some v => Some v | None => Some d end.
Proof. exact complete_valid. Qed.
Print Assumptions absent_takes_default.

(* enumerated options accept exactly the documented values, case-insensitively (ASCII), and raise on anything else *)
Theorem enum_accepts_iff : forall valid opt m v, cget m opt = Some v ->
  ((exists m', check_enum valid opt m = Ok m') <-> In (upper v) valid).
Proof. exact check_enum_iff. Qed.
Print Assumptions enum_accepts_iff.
Theorem enum_stored_upper : forall valid opt m m', check_enum valid opt m = Ok m' ->
  exists v, cget m opt = Some v /\ cget m' opt = Some (upper v).
Proof. exact check_enum_value. Qed.
Print Assumptions enum_stored_upper.

(* an empty mapping_partitioning is no longer rejected: it is among the options whose empty value takes the default *)
Theorem empty_partitioning_takes_default :
  forall m, cget m Tables.o_mapping_partitioning = Some [] ->
    cget (complete m) Tables.o_mapping_partitioning = Some Tables.c_partial_aggregations_partitioning.
Proof.
  intros m H. rewrite (complete_non_valid m Tables.o_mapping_partitioning Tables.c_partial_aggregations_partitioning).
  - now rewrite H.
  - vm_compute. tauto.
Qed.
Print Assumptions empty_partitioning_takes_default.
