(* C16 — materialization is a pure function of configuration, mappings and data.  Statements only; they speak about the
   one piece of state the repository's code shares with its caller (in-memory sources). *)
From Morph Require Import Base.UStr Model.Data Model.Purity Proofs.PurityP.

(* however often a call is repeated on the same Python object, every call returns what the first returned *)
Theorem repeated_calls_identical : forall R (engine : table -> R) n w r, In r (calls R engine n w) -> r = snd (call R engine w).
Proof. exact calls_repeat. Qed.
Print Assumptions repeated_calls_identical.
(* the caller's DataFrame is left unmodified when no string cell holds a double quote (partial: otherwise Findings/C16.v) *)
Theorem caller_frame_unchanged_partial : forall f, no_quotes f -> fst (ram_read f) = f.
Proof. exact world_unchanged. Qed.
Print Assumptions caller_frame_unchanged_partial.
