(* C17 — output files hold exactly the current run's statements.  Statements only, over the abstract file system of
   Model/Writer.v (remove the targeted files, then append per group). *)
From Morph Require Import Base.UStr Model.Writer Proofs.WriterP.

(* whatever the disk held before (files left by earlier runs of any mapping, format or mode), after a run every file
   that the run targets and writes holds exactly this run's lines for it *)
Theorem run_targets_exact : forall f r p,
  mem p (clears r) = true -> existsb (fun w => ueqb p (fst w)) (writes r) = true ->
  fs_get (cli_run f r) p = Some (written_to p (writes r)).
Proof. exact run_target_exact. Qed.
Print Assumptions run_targets_exact.

(* ... for every history of runs *)
Theorem history_targets_exact : forall f hist r p,
  mem p (clears r) = true -> existsb (fun w => ueqb p (fst w)) (writes r) = true ->
  fs_get (fold_left cli_run (hist ++ [r]) f) p = Some (written_to p (writes r)).
Proof. exact history_last_exact. Qed.
Print Assumptions history_targets_exact.

(* a targeted file no group writes to does not survive from an earlier run; a file the run does not name is untouched *)
Theorem cleared_unwritten_absent : forall f r p,
  mem p (clears r) = true -> existsb (fun w => ueqb p (fst w)) (writes r) = false -> fs_get (cli_run f r) p = None.
Proof. exact run_cleared_unwritten. Qed.
Print Assumptions cleared_unwritten_absent.
Theorem other_files_untouched : forall f r p,
  mem p (clears r) = false -> existsb (fun w => ueqb p (fst w)) (writes r) = false -> fs_get (cli_run f r) p = fs_get f p.
Proof. exact run_other_untouched. Qed.
Print Assumptions other_files_untouched.
