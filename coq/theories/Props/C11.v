(* C11 — each statement depends only on the row that produced it.  Statements only. *)
From Morph Require Import Base.UStr Model.Terms Model.Data Model.Engine Proofs.DataP Proofs.RowwiseP.

(* the engine, on a plain rule (no join, no quoted map, not all-constant), is a function of each row alone: its result
   is the concatenation over the rows of the frame it reads -- for every rule table, configuration and data access *)
Theorem engine_is_rowwise : forall cfg fe rules get_data rl d,
  plain_rule rl = true -> get_data (r_src rl) (rule_ref_set fe rules rl) = Ok d ->
  okeq (rule_triples cfg fe rules get_data rl) (frame_lines cfg fe rl d).
Proof. exact plain_rule_triples. Qed.
Print Assumptions engine_is_rowwise.

(* the result over the union of two row sets is the union of the two results *)
Theorem rows_additive : forall cfg fe rl d1 d2 l, frame_lines cfg fe rl (d1 ++ d2) = Ok l ->
  exists l1 l2, frame_lines cfg fe rl d1 = Ok l1 /\ frame_lines cfg fe rl d2 = Ok l2 /\ l = l1 ++ l2.
Proof. exact frame_lines_app. Qed.
Print Assumptions rows_additive.
(* duplicate rows add nothing and row order is irrelevant: frames with the same set of rows give the same statements *)
Theorem duplicates_and_order_irrelevant : forall cfg fe rl d d' l l', (forall r, In r d <-> In r d') ->
  frame_lines cfg fe rl d = Ok l -> frame_lines cfg fe rl d' = Ok l' -> forall x, In x l <-> In x l'.
Proof. exact frame_lines_same_rows. Qed.
Print Assumptions duplicates_and_order_irrelevant.
(* and the frame itself: null filtering, casting and de-duplication act row by row *)
Theorem preprocess_additive : forall na refs f1 f2 r,
  In r (preprocess na refs (f1 ++ f2)) <-> In r (preprocess na refs f1) \/ In r (preprocess na refs f2).
Proof. exact preprocess_app. Qed.
Print Assumptions preprocess_additive.
Theorem preprocess_set_semantics : forall na refs f f', (forall r, In r f <-> In r f') ->
  forall r, In r (preprocess na refs f) <-> In r (preprocess na refs f').
Proof. exact preprocess_same_rows. Qed.
Print Assumptions preprocess_set_semantics.
