(* C11 — each statement depends only on the row that produced it.  Statements only. *)
From Morph Require Import Base.UStr Model.Terms Model.Data Model.Engine Proofs.DataP Proofs.RowwiseP.

(* the engine, on a plain rule (no join, no quoted map, not all-constant), is a function of each row alone: its result
   is the concatenation over the rows of the frame it reads -- for every rule table, configuration and data access *)
Theorem engine_is_rowwise : forall cfg fe rules get_data rl d,
  plain_rule rl = true -> get_data (r_src rl) (rule_ref_set fe rules rl) = Ok d ->
  okeq (rule_triples cfg fe rules get_data rl) (frame_lines cfg fe rl d).
Proof. exact plain_rule_triples. Qed.
Print Assumptions engine_is_rowwise.

(* the result over the union of two row sets is the union of the two results *)
Theorem rows_additive : forall cfg fe rl d1 d2 l, frame_lines cfg fe rl (d1 ++ d2) = Ok l ->
  exists l1 l2, frame_lines cfg fe rl d1 = Ok l1 /\ frame_lines cfg fe rl d2 = Ok l2 /\ l = l1 ++ l2.
Proof. exact frame_lines_app. Qed.
Print Assumptions rows_additive.
(* duplicate rows add nothing and row order is irrelevant: frames with the same set of rows give the same statements *)
Theorem duplicates_and_order_irrelevant : forall cfg fe rl d d' l l', (forall r, In r d <-> In r d') ->
  frame_lines cfg fe rl d = Ok l -> frame_lines cfg fe rl d' = Ok l' -> forall x, In x l <-> In x l'.
Proof. exact frame_lines_same_rows. Qed.
Print Assumptions duplicates_and_order_irrelevant.
(* and the frame itself: null filtering, casting and de-duplication act row by row *)
Theorem preprocess_additive : forall na refs f1 f2 r,
  In r (preprocess na refs (f1 ++ f2)) <-> In r (preprocess na refs f1) \/ In r (preprocess na refs f2).
Proof. exact preprocess_app. Qed.
Print Assumptions preprocess_additive.
Theorem preprocess_set_semantics : forall na refs f f', (forall r, In r f <-> In r f') ->
  forall r, In r (preprocess na refs f) <-> In r (preprocess na refs f').
Proof. exact preprocess_same_rows. Qed.
Print Assumptions preprocess_set_semantics.

(* AT DOCUMENT LEVEL (plain triples maps, no joins): every statement of the document comes from ONE row of the table of its triples
   map; the result over the union of two row sets is the union of the results; only the SET of rows of every table matters (order and
   repeated rows are irrelevant) -- for the generation rules and, through the end-to-end theorem of C01, for the engine *)
From Morph Require Import Model.Mapping Model.Spec Model.Fragment Proofs.TermP Proofs.RowSpecP Proofs.DocEngineP Proofs.DocRowsP.
Theorem document_statement_has_one_row : forall scfg fe d tables, forallb plain_tm d = true ->
  forall x, In x (spec_lines scfg fe d tables) <->
            exists t sr, In t d /\ asserted t = true /\ In sr (tables (t_src t)) /\ In x (tm_row_lines scfg fe d (fun _ => []) t sr).
Proof. exact plain_document_statement_has_one_row. Qed.
Print Assumptions document_statement_has_one_row.
Theorem document_additive_in_rows : forall scfg fe d t1 t2, forallb plain_tm d = true ->
  forall x, In x (spec_lines scfg fe d (fun src => t1 src ++ t2 src)) <-> In x (spec_lines scfg fe d t1) \/ In x (spec_lines scfg fe d t2).
Proof. exact plain_document_additive_in_rows. Qed.
Print Assumptions document_additive_in_rows.
Theorem document_depends_on_row_sets_only : forall scfg fe d t1 t2, forallb plain_tm d = true -> (forall src sr, In sr (t1 src) <-> In sr (t2 src)) ->
  forall x, In x (spec_lines scfg fe d t1) <-> In x (spec_lines scfg fe d t2).
Proof. exact plain_document_depends_on_row_sets. Qed.
Print Assumptions document_depends_on_row_sets_only.
Theorem engine_document_additive_in_rows : forall cfg fe scfg raw1 raw2 d rules l1 l2 l12,
  cfg_agree cfg scfg -> c_nquads cfg = s_nquads scfg -> s_na scfg = c_na cfg ->
  forallb plain_tm d = true -> normalise d = Ok rules -> (forall rl, In rl rules -> simple_rule rl) ->
  (forall raw rl rw n, In raw [raw1; raw2] -> In rl rules -> In rw (raw (r_src rl)) -> In n (rule_names rl) -> assoc n rw <> None) ->
  materialize_rules cfg fe rules (delivered cfg raw1) = Ok l1 -> materialize_rules cfg fe rules (delivered cfg raw2) = Ok l2 ->
  materialize_rules cfg fe rules (delivered cfg (fun src => raw1 src ++ raw2 src)) = Ok l12 ->
  forall x, In x l12 <-> In x l1 \/ In x l2.
Proof. exact engine_plain_document_additive_in_rows. Qed.
Print Assumptions engine_document_additive_in_rows.

(* FOR EVERY DOCUMENT -- referencing object maps with and without join conditions, quoted triples maps of any depth, function executions --
   the generation rules read each table as a SET of rows: two tables with the same rows, in any order, with or without repeated rows, give the
   same statements (a statement depends on the rows it is generated from, never on their position or multiplicity) *)
From Morph Require Import Proofs.DocRowSetsP.
Theorem every_document_depends_on_row_sets_only : forall scfg fe d t1 t2, (forall src sr, In sr (t1 src) <-> In sr (t2 src)) ->
  forall x, In x (spec_lines scfg fe d t1) <-> In x (spec_lines scfg fe d t2).
Proof. exact document_depends_on_row_sets. Qed.
Print Assumptions every_document_depends_on_row_sets_only.
