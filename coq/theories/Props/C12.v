(* C12 — a mapping document means the union of its triples maps.  Statements only (engine level: rule tables).
   Partial in one respect, stated in the names: RDF-star-free rules (the quoted fragment is covered by the correspondence
   check and by C13). *)
From Coq Require Import String.
From Morph Require Import Base.UStr Gen.Tables Model.Terms Model.Data Model.Engine Proofs.UnionP.
Local Open Scope N_scope.

(* the statements of a rule depend on the rest of the rule table only through the parent rule it names *)
Theorem rule_depends_only_on_its_references_partial : forall cfg fe get_data rules rules' rl,
  star_free rl = true ->
  (mkind_eqb (r_ok rl) KParent = true -> find_rule rules (r_ov rl) = find_rule rules' (r_ov rl)) ->
  (forall p, mkind_eqb (r_ok rl) KParent = true -> find_rule rules (r_ov rl) = Some p -> mkind_eqb (r_sk p) KQuoted = false) ->
  rule_triples cfg fe rules get_data rl = rule_triples cfg fe rules' get_data rl.
Proof. exact rule_triples_indep. Qed.
Print Assumptions rule_depends_only_on_its_references_partial.

(* the result over a rule table made of two reference-closed parts is the union of the results of the parts, and it
   fails iff one of the parts fails -- whatever the order and the number of rules *)
Theorem document_is_union_of_parts_partial : forall cfg fe get_data R1 R2,
  NoDup (map r_id (R1 ++ R2)) -> closed R1 -> closed R2 ->
  match materialize_rules cfg fe R1 get_data, materialize_rules cfg fe R2 get_data with
  | Ok l1, Ok l2 => exists l, materialize_rules cfg fe (R1 ++ R2) get_data = Ok l /\ forall x, In x l <-> In x l1 \/ In x l2
  | _, _ => exists e, materialize_rules cfg fe (R1 ++ R2) get_data = Err e
  end.
Proof. exact union_of_parts. Qed.
Print Assumptions document_is_union_of_parts_partial.

(* the renumbering of rules and the rewriting of parent references (_normalize_rml_star) do not change any rule's
   statements: identifiers are only names *)
Theorem rule_numbering_is_irrelevant_partial : forall cfg fe get_data rho rules rl,
  closed rules -> In rl rules -> (forall a b, In a (map r_id rules) -> In b (map r_id rules) -> rho a = rho b -> a = b) ->
  rule_triples cfg fe (map (rename rho) rules) get_data (rename rho rl) = rule_triples cfg fe rules get_data rl.
Proof. exact renaming_invariant. Qed.
Print Assumptions rule_numbering_is_irrelevant_partial.

(* non-vacuity: a closed part holding a referencing rule and its parent *)
Definition ex_r (id : string) (ok : mkind) (ov : string) : rule :=
  {| r_id := u id; r_tm := u id; r_src := u "S"; r_asserted := true; r_sk := KTempl; r_sv := u "http://e/{id}"; r_stt := TIri;
     r_pk := KConst; r_pv := u "http://e/p"; r_ok := ok; r_ov := u ov; r_ott := TIri; r_ld := LDNone; r_ldk := KNone; r_ldv := [];
     r_gk := KNone; r_gv := []; r_sjoin := []; r_ojoin := match ok with KParent => [(u "k", u "k")] | _ => [] end |}.
Example closed_example : closed [ex_r "1" KParent "2"; ex_r "2" KRef "name"] /\ closed [ex_r "3" KTempl "http://e/o/{x}"] /\
  NoDup (map r_id ([ex_r "1" KParent "2"; ex_r "2" KRef "name"] ++ [ex_r "3" KTempl "http://e/o/{x}"])).
Proof.
  split; [|split].
  - intros rl [<-|[<-|[]]]; split; try reflexivity; try discriminate. intros _. eexists. split; reflexivity.
  - intros rl [<-|[]]; split; try reflexivity; discriminate.
  - repeat constructor; simpl; intuition discriminate.
Qed.
Print Assumptions closed_example.

(* AT DOCUMENT LEVEL (plain triples maps): the generation rules give, for the concatenation of two documents, exactly the union of
   what they give for each -- a triples map means the same whatever stands around it -- and so does the engine, end to end
   (through the end-to-end theorem of C01): every pair of documents, every table, both output formats *)
From Morph Require Import Model.Mapping Model.Spec Model.Fragment Proofs.TermP Proofs.RowSpecP Proofs.DocEngineP Proofs.DocUnionP.
Theorem plain_document_means_the_union_of_its_parts : forall scfg fe tables d1 d2,
  forallb plain_tm d1 = true -> forallb plain_tm d2 = true ->
  forall x, In x (spec_lines scfg fe (d1 ++ d2) tables) <-> In x (spec_lines scfg fe d1 tables) \/ In x (spec_lines scfg fe d2 tables).
Proof. exact plain_document_is_union_of_parts. Qed.
Print Assumptions plain_document_means_the_union_of_its_parts.
Theorem engine_on_a_plain_document_is_the_union_over_its_parts : forall cfg fe scfg raw d1 d2 r1 r2 r12 l1 l2 l12,
  cfg_agree cfg scfg -> c_nquads cfg = s_nquads scfg -> s_na scfg = c_na cfg ->
  forallb plain_tm d1 = true -> forallb plain_tm d2 = true ->
  normalise d1 = Ok r1 -> normalise d2 = Ok r2 -> normalise (d1 ++ d2) = Ok r12 ->
  (forall rl, In rl r1 -> simple_rule rl) -> (forall rl, In rl r2 -> simple_rule rl) -> (forall rl, In rl r12 -> simple_rule rl) ->
  (forall rules rl rw n, In rules [r1; r2; r12] -> In rl rules -> In rw (raw (r_src rl)) -> In n (rule_names rl) -> assoc n rw <> None) ->
  materialize_rules cfg fe r1 (delivered cfg raw) = Ok l1 -> materialize_rules cfg fe r2 (delivered cfg raw) = Ok l2 ->
  materialize_rules cfg fe r12 (delivered cfg raw) = Ok l12 ->
  forall x, In x l12 <-> In x l1 \/ In x l2.
Proof. exact engine_plain_document_is_union_of_parts. Qed.
Print Assumptions engine_on_a_plain_document_is_the_union_over_its_parts.

(* FOR EVERY DOCUMENT (referencing object maps, quoted triples maps of any depth, function executions): the generation rules give the same
   statements however the triples maps of a document with distinct identifiers are ordered; and every statement of a part is a statement of
   the whole (`_partial`: the converse inclusion -- the whole has nothing beyond its CLOSED parts -- is proved for plain documents above and
   for the engine's rule tables (`document_is_union_of_parts_partial`); for arbitrary nesting it needs an acyclic reference graph -- a triples map that quotes itself
   through one object map and ends through another nests as deep as the fuel allows -- and is not proved) *)
From Coq Require Import Permutation.
From Morph Require Import Proofs.DocOrderP.
Theorem triples_map_order_is_irrelevant : forall scfg fe tables d d', Permutation d d' -> NoDup (map t_id d) ->
  forall x, In x (spec_lines scfg fe d tables) <-> In x (spec_lines scfg fe d' tables).
Proof. exact document_order_irrelevant. Qed.
Print Assumptions triples_map_order_is_irrelevant.
Theorem every_part_is_included_in_the_whole_partial : forall scfg fe tables d1 d2, NoDup (map t_id (d1 ++ d2)) ->
  forall x, In x (spec_lines scfg fe d1 tables) \/ In x (spec_lines scfg fe d2 tables) -> In x (spec_lines scfg fe (d1 ++ d2) tables).
Proof. exact parts_are_included_in_the_whole. Qed.
Print Assumptions every_part_is_included_in_the_whole_partial.
