(* C18 — RDFLib graph and Oxigraph store hold exactly the generated statements.  Statements only (the repository's glue
   against the line-oriented reader of Model/NQuads.v; the loaders themselves are third-party code). *)
From Morph Require Import Base.UStr Model.Terms Model.NQuads Model.Loaders Proofs.LoadersP Proofs.NQuadsP.

(* joining the set with ".\n" and adding a final "." gives a document whose lines are exactly the statements, each
   followed by its dot: nothing is merged, nothing is split -- provided no statement contains a raw line feed (C05) *)
Theorem document_lines_are_statements : forall S, S <> [] -> Forall (fun l => memN 10 l = false) S ->
  split_doc (serialise S) = map (fun l => l ++ [46%N]) S.
Proof. exact split_serialise. Qed.
Print Assumptions document_lines_are_statements.
Theorem load_per_statement : forall S, S <> [] -> Forall (fun l => memN 10 l = false) S ->
  load S = map (fun l => parse_line (l ++ [46%N])) S.
Proof. exact load_is_per_statement. Qed.
Print Assumptions load_per_statement.
Theorem empty_result_loads_nothing : load [] = [].
Proof. exact load_empty. Qed.
Print Assumptions empty_result_loads_nothing.
