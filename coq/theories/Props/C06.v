(* C06 — a NULL suppresses exactly the statements that use it and never becomes a term.  Statements only, over
   materializer._preprocess_data as modelled in Model/Data.v (what each reader hands over for a NULL is modelled per source
   kind in Data.arrive and measured by the correspondence). *)
From Morph Require Import Base.UStr Model.Data Proofs.DataP.

(* a row reaches term construction iff none of the columns the rule references holds a NULL (None / NaN as delivered by the
   reader) or a token of na_values -- for every frame, reference set and na_values list; rows are otherwise untouched *)
Theorem null_suppresses_exactly : forall na refs f r,
  In r (preprocess na refs f) <->
  exists raw, In raw f /\ raw_has_null refs raw = false /\ row_has_null na refs (str_row raw) = false /\ r = null_to_text na (str_row raw).
Proof. exact preprocess_in. Qed.
Print Assumptions null_suppresses_exactly.
Theorem null_in_referenced_column : forall refs raw,
  raw_has_null refs raw = true <-> exists k, In k refs /\ (assoc k raw = Some CNone \/ assoc k raw = Some CNaN).
Proof. exact raw_has_null_iff. Qed.
Print Assumptions null_in_referenced_column.
Theorem na_token_in_referenced_column : forall na refs r,
  row_has_null na refs r = true <-> exists k v, In k refs /\ rget k r = Some v /\ In v na.
Proof. exact row_has_null_iff. Qed.
Print Assumptions na_token_in_referenced_column.
(* a NULL never reaches a term: a surviving row holds, in every referenced column, the text of a non-null cell *)
Theorem null_never_becomes_text : forall na refs f r, In r (preprocess na refs f) ->
  exists raw, In raw f /\ forall k, In k refs -> assoc k raw <> Some CNone /\ assoc k raw <> Some CNaN.
Proof.
  intros na refs f r H. apply preprocess_in in H as (raw & Hraw & Q & _ & _). exists raw. split; auto.
  intros k Hk. split; intro E; assert (raw_has_null refs raw = true) by (apply raw_has_null_iff; exists k; auto); congruence.
Qed.
Print Assumptions null_never_becomes_text.
