(* C06 — a NULL suppresses exactly the statements that use it and never becomes a term.  Statements only, over
   materializer._preprocess_data as modelled in Model/Data.v (what each reader hands over for a NULL is modelled per source
   kind in Data.arrive and measured by the correspondence). *)
From Morph Require Import Base.UStr Model.Data Proofs.DataP.

(* a row reaches term construction iff none of the columns the rule references holds a NULL (None / NaN as delivered by the
   reader) or a token of na_values -- for every frame, reference set and na_values list; rows are otherwise untouched *)
Theorem null_suppresses_exactly : forall na refs f r,
  In r (preprocess na refs f) <->
  exists raw, In raw f /\ raw_has_null refs raw = false /\ row_has_null na refs (str_row raw) = false /\ r = null_to_text na (str_row raw).
Proof. exact preprocess_in. Qed.
Print Assumptions null_suppresses_exactly.
Theorem null_in_referenced_column : forall refs raw,
  raw_has_null refs raw = true <-> exists k, In k refs /\ (assoc k raw = Some CNone \/ assoc k raw = Some CNaN).
Proof. exact raw_has_null_iff. Qed.
Print Assumptions null_in_referenced_column.
Theorem na_token_in_referenced_column : forall na refs r,
  row_has_null na refs r = true <-> exists k v, In k refs /\ rget k r = Some v /\ In v na.
Proof. exact row_has_null_iff. Qed.
Print Assumptions na_token_in_referenced_column.
(* a NULL never reaches a term: a surviving row holds, in every referenced column, the text of a non-null cell *)
Theorem null_never_becomes_text : forall na refs f r, In r (preprocess na refs f) ->
  exists raw, In raw f /\ forall k, In k refs -> assoc k raw <> Some CNone /\ assoc k raw <> Some CNaN.
Proof.
  intros na refs f r H. apply preprocess_in in H as (raw & Hraw & Q & _ & _). exists raw. split; auto.
  intros k Hk. split; intro E; assert (raw_has_null refs raw = true) by (apply raw_has_null_iff; exists k; auto); congruence.
Qed.
Print Assumptions null_never_becomes_text.

(* AT DOCUMENT LEVEL (plain triples maps): a statement is materialised iff it is the statement of some asserted rule for some
   delivered row in which EVERY column the rule references holds a value that is neither NULL (None / NaN) nor a token of na_values;
   a row with a NULL or such a token in a referenced column gives nothing through that rule -- through the end-to-end theorem of C01 *)
From Morph Require Import Base.UStr Model.Terms Model.Data Model.Engine Model.Mapping Model.Spec Model.Fragment Proofs.TermP Proofs.RowSpecP Proofs.DocSpecP Proofs.DocEngineP Proofs.DocNullP.
Theorem statements_come_from_null_free_rows : forall cfg fe scfg raw d0 rules l,
  cfg_agree cfg scfg -> c_nquads cfg = s_nquads scfg -> s_na scfg = c_na cfg ->
  forallb plain_tm d0 = true -> normalise d0 = Ok rules -> (forall rl, In rl rules -> simple_rule rl) ->
  (forall rl rw n, In rl rules -> In rw (raw (r_src rl)) -> In n (rule_names rl) -> assoc n rw <> None) ->
  materialize_rules cfg fe rules (delivered cfg raw) = Ok l ->
  forall x, In x l <->
    exists rl rw, In rl rules /\ r_asserted rl = true /\ In rw (raw (r_src rl)) /\ doc_rule_line scfg rl (srow_of_raw rw) = Some x /\
                  forall n, In n (rule_names rl) -> cell_present scfg rw n.
Proof. exact engine_statements_come_from_null_free_rows. Qed.
Print Assumptions statements_come_from_null_free_rows.
Theorem null_in_a_referenced_column_gives_no_statement : forall scfg rl rw n, simple_rule rl -> In n (rule_names rl) -> ~ cell_present scfg rw n ->
  doc_rule_line scfg rl (srow_of_raw rw) = None.
Proof. exact null_in_a_referenced_column_suppresses. Qed.
Print Assumptions null_in_a_referenced_column_gives_no_statement.

(* REFERENCING OBJECT MAPS: a NULL (or a token of na_values: `sval` is None for both) in a join key joins with NOTHING, not even with another NULL.
   Generation rules: no parent row is joined through a condition one side of which is missing.  Engine: every row of the merged frame comes from a
   child row and a parent row that hold a value, the same one, under every join condition. *)
From Morph Require Import Proofs.JoinP Proofs.NullJoinP.
Theorem null_join_key_joins_nothing : forall cfg tables child src conds cd p,
  In cd conds -> sval cfg child (fst cd) = None \/ sval cfg p (snd cd) = None -> ~ In p (joined_rows cfg tables child src conds).
Proof. exact null_key_joins_nothing_spec. Qed.
Print Assumptions null_join_key_joins_nothing.
Theorem engine_merged_rows_have_every_join_key : forall child parent conds m, merge_data child parent conds = Ok m ->
  forall x, In x m -> exists c p, In c child /\ In p parent /\ x = c ++ add_prefix parent_prefix p /\
    forall cd, In cd conds -> exists a, rget (fst cd) c = Some a /\ rget (snd cd) p = Some a.
Proof. exact merged_rows_have_all_keys. Qed.
Print Assumptions engine_merged_rows_have_every_join_key.

(* FOR EVERY DOCUMENT (whatever its predicate-object maps hold: referencing object maps, quoted maps, functions): a row with a NULL or a token of
   na_values in a column that the subject map references gives no statement at all through that triples map *)
Theorem null_in_a_subject_reference_gives_no_statement : forall scfg fe doc tables t r n,
  is_plain (m_kind (t_subj t)) = true -> In n (names (segs_of (m_kind (t_subj t)) (m_value (t_subj t)))) -> sval scfg r n = None ->
  tm_row_lines scfg fe doc tables t r = [].
Proof. exact null_in_subject_reference_gives_nothing. Qed.
Print Assumptions null_in_a_subject_reference_gives_no_statement.
