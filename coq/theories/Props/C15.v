(* C15 — typed literals keep their lexical form; canonicalisation never changes a value.  Statements only. *)
From Morph Require Import Base.UStr Gen.Tables Model.Terms Proofs.CanonP.
Local Open Scope N_scope.

(* datatypes other than xsd:boolean, xsd:dateTime and xsd:integer (as named in the regenerated tables): the lexical form
   is kept exactly, for every string *)
Theorem other_datatypes_untouched : forall dt s,
  ueqb dt Tables.c_xsd_boolean = false -> ueqb dt Tables.c_xsd_datetime = false -> ueqb dt Tables.c_xsd_integer = false ->
  canon dt s = COk s.
Proof. exact canon_other. Qed.
Print Assumptions other_datatypes_untouched.

(* xsd:boolean: lower-casing never changes the denoted truth value (ASCII forms) *)
Theorem boolean_value_preserved : forall s r, canon Tables.c_xsd_boolean s = COk r -> bool_value r = bool_value s.
Proof. exact canon_boolean_value. Qed.
Print Assumptions boolean_value_preserved.

(* xsd:dateTime: exactly the blanks are replaced by 'T', position by position; never aborts *)
Theorem datetime_blanks_only : forall s, canon Tables.c_xsd_datetime s = COk (map (fun c => if c =? 32 then 84 else c) s).
Proof. exact canon_datetime. Qed.
Print Assumptions datetime_blanks_only.

(* xsd:integer: the detour through binary64 is exact for magnitudes below 2^53 (partial: beyond that, Findings/C15.v) *)
Theorem integer_float_exact_below_2_53 : forall a, 0 < a -> a < 2 ^ 53 -> trunc_round64 a 1 = a.
Proof. exact trunc_round64_exact. Qed.
Print Assumptions integer_float_exact_below_2_53.
