(* C05 — every emitted line is valid N-Triples/N-Quads and round-trips the data.  Statements only. *)
From Morph Require Import Base.UStr Model.Terms Model.NQuads Proofs.EscP Proofs.PctP Proofs.NQuadsP.
Local Open Scope N_scope.

(* the eight sequential str.replace calls of materializer.py L128/L166, in code order, equal the character-wise ECHAR
   substitution -- for every string.  (An order that double-escapes, e.g. the backslash last, falsifies escape_one.) *)
Theorem escape_lit_charwise : forall s, escape_lit s = flat_map esc_char s.
Proof. exact escape_lit_charwise_proof. Qed.
Print Assumptions escape_lit_charwise.

(* parsing a rendered literal body back yields the source value character for character *)
Theorem unescape_escape : forall s, unesc false (escape_lit s) = Some s.
Proof. exact unescape_escape_proof. Qed.
Print Assumptions unescape_escape.

(* the closing quote is found unambiguously whatever follows; no raw line break survives, so a literal never splits a line *)
Theorem literal_closing_quote : forall v rest, read_string false (escape_lit v ++ 34 :: rest) = Some (v, rest).
Proof. exact read_string_escape. Qed.
Print Assumptions literal_closing_quote.
Theorem literal_no_raw_newline : forall s, forallb (fun c => negb ((c =? 10) || (c =? 13))) (escape_lit s) = true.
Proof. exact escaped_no_raw_newline. Qed.
Print Assumptions literal_no_raw_newline.

(* UTF-8 and percent-encoding lose nothing: decoding a percent-encoded template value gives back the value (all Unicode
   scalar values; the percent sign must not be configured as safe) *)
Theorem utf8_roundtrip : forall s, forallb (fun c => c <? 1114112) s = true -> utf8_decode (utf8_encode s) = Some s.
Proof. exact utf8_roundtrip_proof. Qed.
Print Assumptions utf8_roundtrip.
Theorem pct_decode_encode : forall safe s, memN 37 safe = false -> forallb (fun c => c <? 1114112) s = true ->
  pct_decode (pct_encode safe s) = Some (utf8_encode s).
Proof. exact pct_decode_encode_proof. Qed.
Print Assumptions pct_decode_encode.
(* only RFC 3986 unreserved characters, the configured safe set (ASCII) and percent-escapes appear in an encoded value *)
Theorem pct_output_alphabet : forall safe s, forallb (fun c => c <? 1114112) s = true ->
  forallb (fun c => unreserved c || ((c <? 128) && memN c safe) || (c =? 37)) (pct_encode safe s) = true.
Proof. exact pct_output_alphabet_proof. Qed.
Print Assumptions pct_output_alphabet.

(* a line printed from well-formed terms parses as exactly that one statement, and printing is injective on them *)
Theorem parse_render : forall q, wf_stmt q = true -> parse_line (print_stmt q) = Some q.
Proof. exact parse_render_proof. Qed.
Print Assumptions parse_render.
Theorem print_injective : forall q1 q2, wf_stmt q1 = true -> wf_stmt q2 = true -> print_stmt q1 = print_stmt q2 -> q1 = q2.
Proof. exact print_stmt_injective. Qed.
Print Assumptions print_injective.

(* blank-node labels derived from data differ whenever the values differ (the engine copies the value) *)
Theorem bnode_injective : forall v1 v2, delimit TBnode v1 = delimit TBnode v2 -> v1 = v2.
Proof. intros v1 v2 H. simpl in H. congruence. Qed.
Print Assumptions bnode_injective.
