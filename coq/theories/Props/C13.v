(* C13 — RDF-star statements quote exactly the triples their quoted maps generate.  Statements only.
   Proved for a quoted triples map in subject position or in object position over the same rows (no join condition), one level deep, whose own
   term maps are constants, references and templates (names say _partial); quoted maps with joins and deeper nestings are
   decided by the correspondence part of the check against the Spec (which is recursive in the nesting depth). *)
From Coq Require Import String.
From Morph Require Import Base.UStr Gen.Tables Model.Terms Model.Data Model.Engine Model.Mapping Model.Spec
     Proofs.TemplateP Proofs.TermP Proofs.RowwiseP Proofs.RowSpecP Proofs.RuleSpecP Proofs.QuotedP Proofs.QuotedObjP Proofs.NormaliseP.
Local Open Scope N_scope.

(* the frame-wise stages of _materialize_rml_rule (quoted map, quoting, the rule's own terms, the triple string) are one
   function of the row: any pipeline of row-wise stages over any frame *)
Theorem frame_pipeline_is_rowwise : forall fs d, okeq (pipe fs d) (rflat_rows (fun r => pipe fs [r]) d).
Proof. exact pipe_fuse. Qed.
Print Assumptions frame_pipeline_is_rowwise.

(* one row: the statement is  << s p o >> p' o' [g]  where s p o is exactly the triple the generation rules give the
   quoted map for this row, and there is no statement iff the quoted triple or one of the rule's own terms is missing *)
Theorem quoted_subject_embeds_the_quoted_triple_partial : forall cfg fe scfg, cfg_agree cfg scfg -> c_nquads cfg = s_nquads scfg ->
  forall rl q, r_sk rl = KQuoted -> rule_ok false q ->
    pos_ok (r_pk rl) (r_pv rl) TIri -> pos_ok (r_ok rl) (r_ov rl) (r_ott rl) -> (r_ld rl <> LDNone -> pos_ok (r_ldk rl) (r_ldv rl) TNone) ->
    graph_ok (c_nquads cfg) rl ->
    (forall n, In n (quoted_names rl q) -> ueqb n (keep_subject_col 0) = false) -> names_free (quoted_names rl q) ->
  forall r sr, row_agree scfg sr [] r (quoted_names rl q) ->
    match (rdo fs <- pipe (quoted_stages cfg fe rl q) [r]; extract_triples fs) with
    | Ok ls => exists line, spec_quoted_line scfg rl q sr = Some line /\ ls = [line]
    | Err _ => spec_quoted_line scfg rl q sr = None
    end.
Proof. exact quoted_row_is_spec. Qed.
Print Assumptions quoted_subject_embeds_the_quoted_triple_partial.

(* the whole rule over the frame it reads *)
Theorem quoted_rule_statements_partial : forall cfg fe rules get_data scfg, cfg_agree cfg scfg -> c_nquads cfg = s_nquads scfg ->
  forall rl q, r_sk rl = KQuoted -> r_sjoin rl = [] -> mkind_eqb (r_ok rl) KQuoted = false ->
    find_rule rules (r_sv rl) = Some q -> plain_rule q = true -> rule_ok false q ->
    pos_ok (r_pk rl) (r_pv rl) TIri -> pos_ok (r_ok rl) (r_ov rl) (r_ott rl) -> (r_ld rl <> LDNone -> pos_ok (r_ldk rl) (r_ldv rl) TNone) ->
    graph_ok (c_nquads cfg) rl ->
    (forall n, In n (quoted_names rl q) -> ueqb n (keep_subject_col 0) = false) -> names_free (quoted_names rl q) ->
  forall na refs f, s_na scfg = na -> incl (quoted_names rl q) refs ->
    get_data (r_src rl) (quoted_refs fe rules rl) = Ok (preprocess na refs f) ->
    (forall ls, rule_triples cfg fe rules get_data rl = Ok ls ->
       forall x, In x ls <-> exists r, In r (preprocess na refs f) /\ spec_quoted_line scfg rl q (srow_of r) = Some x) /\
    ((forall r, In r (preprocess na refs f) -> spec_quoted_line scfg rl q (srow_of r) <> None) ->
       exists ls, rule_triples cfg fe rules get_data rl = Ok ls).
Proof. exact quoted_rule_is_spec. Qed.
Print Assumptions quoted_rule_statements_partial.

(* the same in object position: the statement is  s' p' << s p o >> [g] *)
Theorem quoted_object_embeds_the_quoted_triple_partial : forall cfg fe scfg, cfg_agree cfg scfg -> c_nquads cfg = s_nquads scfg ->
  forall rl q, r_ok rl = KQuoted -> r_ld rl = LDNone -> rule_ok false q ->
    pos_ok (r_sk rl) (r_sv rl) (r_stt rl) -> pos_ok (r_pk rl) (r_pv rl) TIri -> graph_ok (c_nquads cfg) rl ->
    names_free (quoted_obj_names rl q) ->
  forall r sr, row_agree scfg sr [] r (quoted_obj_names rl q) ->
    match (rdo fs <- pipe (quoted_obj_stages cfg fe rl q) [r]; extract_triples fs) with
    | Ok ls => exists line, spec_quoted_obj_line scfg rl q sr = Some line /\ ls = [line]
    | Err _ => spec_quoted_obj_line scfg rl q sr = None
    end.
Proof. exact quoted_obj_row_is_spec. Qed.
Print Assumptions quoted_object_embeds_the_quoted_triple_partial.
Theorem quoted_object_rule_statements_partial : forall cfg fe rules get_data scfg, cfg_agree cfg scfg -> c_nquads cfg = s_nquads scfg ->
  forall rl q, r_ok rl = KQuoted -> r_ld rl = LDNone -> r_ojoin rl = [] ->
    find_rule rules (r_ov rl) = Some q -> plain_rule q = true -> rule_ok false q ->
    pos_ok (r_sk rl) (r_sv rl) (r_stt rl) -> pos_ok (r_pk rl) (r_pv rl) TIri -> graph_ok (c_nquads cfg) rl ->
    names_free (quoted_obj_names rl q) ->
  forall na refs f, s_na scfg = na -> incl (quoted_obj_names rl q) refs ->
    get_data (r_src rl) (quoted_refs fe rules rl) = Ok (preprocess na refs f) ->
    (forall ls, rule_triples cfg fe rules get_data rl = Ok ls ->
       forall x, In x ls <-> exists r, In r (preprocess na refs f) /\ spec_quoted_obj_line scfg rl q (srow_of r) = Some x) /\
    ((forall r, In r (preprocess na refs f) -> spec_quoted_obj_line scfg rl q (srow_of r) <> None) ->
       exists ls, rule_triples cfg fe rules get_data rl = Ok ls).
Proof. exact quoted_obj_rule_is_spec. Qed.
Print Assumptions quoted_object_rule_statements_partial.

(* asserted rules contribute their statements, non-asserted rules contribute none of their own *)
Theorem only_asserted_rules_contribute : forall cfg fe rules get_data l, materialize_rules cfg fe rules get_data = Ok l ->
  forall x, In x l <-> exists rl ls, In rl rules /\ r_asserted rl = true /\ rule_triples cfg fe rules get_data rl = Ok ls /\ In x ls.
Proof. exact asserted_exactly. Qed.
Print Assumptions only_asserted_rules_contribute.
(* and a rule is asserted iff its triples map is not declared non-asserted (and has a predicate-object map) *)
Theorem rules_inherit_assertedness : forall d t rs r, base_rules_of d t = Ok rs -> In r rs ->
  r_asserted r = negb (t_nonasserted t) && negb (match t_poms t with [] => true | _ => false end) /\ r_tm r = t_id t.
Proof. exact base_rules_asserted. Qed.
Print Assumptions rules_inherit_assertedness.

(* non-vacuity: a concrete annotation rule over a quoted map, evaluated *)
Definition qx (id : string) sk sv pk pv ok ov ott : rule :=
  {| r_id := u id; r_tm := u id; r_src := u "S"; r_asserted := true; r_sk := sk; r_sv := u sv; r_stt := match sk with KQuoted => TStar | _ => TIri end;
     r_pk := pk; r_pv := u pv; r_ok := ok; r_ov := u ov; r_ott := ott; r_ld := LDNone; r_ldk := KNone; r_ldv := [];
     r_gk := KNone; r_gv := []; r_sjoin := []; r_ojoin := [] |}.
Definition q_inner := qx "1" KTempl "http://e/{id}" KConst "http://e/p" KRef "v" TLit.
Definition q_outer := qx "2" KQuoted "1" KConst "http://e/certainty" KRef "c" TLit.
Definition q_cfg : ecfg := {| c_nquads := false; c_printable := true; c_safe := []; c_na := [] |}.
Definition q_scfg : scfg := {| s_nquads := false; s_printable := true; s_safe := []; s_na := [] |}.
Definition q_row : row := [(u "id", u "7"); (u "v", u "x y"); (u "c", u "0.9")].
Example quoted_example :
  (rdo fs <- pipe (quoted_stages q_cfg {| fn_params := fun _ => None; fn_apply := fun _ _ => FRaise; fn_table := [] |} q_outer q_inner) [q_row]; extract_triples fs)
  = Ok [u "<< <http://e/7> <http://e/p> ""x y"" >> <http://e/certainty> ""0.9"""] /\
  spec_quoted_line q_scfg q_outer q_inner (srow_of q_row) = Some (u "<< <http://e/7> <http://e/p> ""x y"" >> <http://e/certainty> ""0.9""").
Proof. vm_compute. split; reflexivity. Qed.
Print Assumptions quoted_example.
