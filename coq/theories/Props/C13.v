(* C13 — RDF-star statements quote exactly the triples their quoted maps generate.  Statements only.
   Proved for a quoted triples map in subject position or in object position over the same rows (no join condition), one level deep, whose own
   term maps are constants, references and templates (names say _partial); quoted maps with joins and deeper nestings are
   decided by the correspondence part of the check against the Spec (which is recursive in the nesting depth). *)
From Coq Require Import String.
From Morph Require Import Base.UStr Gen.Tables Model.Terms Model.Data Model.Engine Model.Mapping Model.Spec
     Proofs.TemplateP Proofs.TermP Proofs.RowwiseP Proofs.RowSpecP Proofs.RuleSpecP Proofs.QuotedP Proofs.QuotedObjP Proofs.NormaliseP.
Local Open Scope N_scope.

(* the frame-wise stages of _materialize_rml_rule (quoted map, quoting, the rule's own terms, the triple string) are one
   function of the row: any pipeline of row-wise stages over any frame *)
Theorem frame_pipeline_is_rowwise : forall fs d, okeq (pipe fs d) (rflat_rows (fun r => pipe fs [r]) d).
Proof. exact pipe_fuse. Qed.
Print Assumptions frame_pipeline_is_rowwise.

(* one row: the statement is  << s p o >> p' o' [g]  where s p o is exactly the triple the generation rules give the
   quoted map for this row, and there is no statement iff the quoted triple or one of the rule's own terms is missing *)
Theorem quoted_subject_embeds_the_quoted_triple_partial : forall cfg fe scfg, cfg_agree cfg scfg -> c_nquads cfg = s_nquads scfg ->
  forall rl q, r_sk rl = KQuoted -> rule_ok false q ->
    pos_ok (r_pk rl) (r_pv rl) TIri -> pos_ok (r_ok rl) (r_ov rl) (r_ott rl) -> (r_ld rl <> LDNone -> pos_ok (r_ldk rl) (r_ldv rl) TNone) ->
    graph_ok (c_nquads cfg) rl ->
    (forall n, In n (quoted_names rl q) -> ueqb n (keep_subject_col 0) = false) -> names_free (quoted_names rl q) ->
  forall r sr, row_agree scfg sr [] r (quoted_names rl q) ->
    match (rdo fs <- pipe (quoted_stages cfg fe rl q) [r]; extract_triples fs) with
    | Ok ls => exists line, spec_quoted_line scfg rl q sr = Some line /\ ls = [line]
    | Err _ => spec_quoted_line scfg rl q sr = None
    end.
Proof. exact quoted_row_is_spec. Qed.
Print Assumptions quoted_subject_embeds_the_quoted_triple_partial.

(* the whole rule over the frame it reads *)
Theorem quoted_rule_statements_partial : forall cfg fe rules get_data scfg, cfg_agree cfg scfg -> c_nquads cfg = s_nquads scfg ->
  forall rl q, r_sk rl = KQuoted -> r_sjoin rl = [] -> mkind_eqb (r_ok rl) KQuoted = false ->
    find_rule rules (r_sv rl) = Some q -> plain_rule q = true -> rule_ok false q ->
    pos_ok (r_pk rl) (r_pv rl) TIri -> pos_ok (r_ok rl) (r_ov rl) (r_ott rl) -> (r_ld rl <> LDNone -> pos_ok (r_ldk rl) (r_ldv rl) TNone) ->
    graph_ok (c_nquads cfg) rl ->
    (forall n, In n (quoted_names rl q) -> ueqb n (keep_subject_col 0) = false) -> names_free (quoted_names rl q) ->
  forall na refs f, s_na scfg = na -> incl (quoted_names rl q) refs ->
    get_data (r_src rl) (quoted_refs fe rules rl) = Ok (preprocess na refs f) ->
    (forall ls, rule_triples cfg fe rules get_data rl = Ok ls ->
       forall x, In x ls <-> exists r, In r (preprocess na refs f) /\ spec_quoted_line scfg rl q (srow_of r) = Some x) /\
    ((forall r, In r (preprocess na refs f) -> spec_quoted_line scfg rl q (srow_of r) <> None) ->
       exists ls, rule_triples cfg fe rules get_data rl = Ok ls).
Proof. exact quoted_rule_is_spec. Qed.
Print Assumptions quoted_rule_statements_partial.

(* the same in object position: the statement is  s' p' << s p o >> [g] *)
Theorem quoted_object_embeds_the_quoted_triple_partial : forall cfg fe scfg, cfg_agree cfg scfg -> c_nquads cfg = s_nquads scfg ->
  forall rl q, r_ok rl = KQuoted -> r_ld rl = LDNone -> rule_ok false q ->
    pos_ok (r_sk rl) (r_sv rl) (r_stt rl) -> pos_ok (r_pk rl) (r_pv rl) TIri -> graph_ok (c_nquads cfg) rl ->
    names_free (quoted_obj_names rl q) ->
  forall r sr, row_agree scfg sr [] r (quoted_obj_names rl q) ->
    match (rdo fs <- pipe (quoted_obj_stages cfg fe rl q) [r]; extract_triples fs) with
    | Ok ls => exists line, spec_quoted_obj_line scfg rl q sr = Some line /\ ls = [line]
    | Err _ => spec_quoted_obj_line scfg rl q sr = None
    end.
Proof. exact quoted_obj_row_is_spec. Qed.
Print Assumptions quoted_object_embeds_the_quoted_triple_partial.
Theorem quoted_object_rule_statements_partial : forall cfg fe rules get_data scfg, cfg_agree cfg scfg -> c_nquads cfg = s_nquads scfg ->
  forall rl q, r_ok rl = KQuoted -> r_ld rl = LDNone -> r_ojoin rl = [] ->
    find_rule rules (r_ov rl) = Some q -> plain_rule q = true -> rule_ok false q ->
    pos_ok (r_sk rl) (r_sv rl) (r_stt rl) -> pos_ok (r_pk rl) (r_pv rl) TIri -> graph_ok (c_nquads cfg) rl ->
    names_free (quoted_obj_names rl q) ->
  forall na refs f, s_na scfg = na -> incl (quoted_obj_names rl q) refs ->
    get_data (r_src rl) (quoted_refs fe rules rl) = Ok (preprocess na refs f) ->
    (forall ls, rule_triples cfg fe rules get_data rl = Ok ls ->
       forall x, In x ls <-> exists r, In r (preprocess na refs f) /\ spec_quoted_obj_line scfg rl q (srow_of r) = Some x) /\
    ((forall r, In r (preprocess na refs f) -> spec_quoted_obj_line scfg rl q (srow_of r) <> None) ->
       exists ls, rule_triples cfg fe rules get_data rl = Ok ls).
Proof. exact quoted_obj_rule_is_spec. Qed.
Print Assumptions quoted_object_rule_statements_partial.

(* asserted rules contribute their statements, non-asserted rules contribute none of their own *)
Theorem only_asserted_rules_contribute : forall cfg fe rules get_data l, materialize_rules cfg fe rules get_data = Ok l ->
  forall x, In x l <-> exists rl ls, In rl rules /\ r_asserted rl = true /\ rule_triples cfg fe rules get_data rl = Ok ls /\ In x ls.
Proof. exact asserted_exactly. Qed.
Print Assumptions only_asserted_rules_contribute.
(* and a rule is asserted iff its triples map is not declared non-asserted (and has a predicate-object map) *)
Theorem rules_inherit_assertedness : forall d t rs r, base_rules_of d t = Ok rs -> In r rs ->
  r_asserted r = negb (t_nonasserted t) && negb (match t_poms t with [] => true | _ => false end) /\ r_tm r = t_id t.
Proof. exact base_rules_asserted. Qed.
Print Assumptions rules_inherit_assertedness.

(* non-vacuity: a concrete annotation rule over a quoted map, evaluated *)
Definition qx (id : string) sk sv pk pv ok ov ott : rule :=
  {| r_id := u id; r_tm := u id; r_src := u "S"; r_asserted := true; r_sk := sk; r_sv := u sv; r_stt := match sk with KQuoted => TStar | _ => TIri end;
     r_pk := pk; r_pv := u pv; r_ok := ok; r_ov := u ov; r_ott := ott; r_ld := LDNone; r_ldk := KNone; r_ldv := [];
     r_gk := KNone; r_gv := []; r_sjoin := []; r_ojoin := [] |}.
Definition q_inner := qx "1" KTempl "http://e/{id}" KConst "http://e/p" KRef "v" TLit.
Definition q_outer := qx "2" KQuoted "1" KConst "http://e/certainty" KRef "c" TLit.
Definition q_cfg : ecfg := {| c_nquads := false; c_printable := true; c_safe := []; c_na := [] |}.
Definition q_scfg : scfg := {| s_nquads := false; s_printable := true; s_safe := []; s_na := [] |}.
Definition q_row : row := [(u "id", u "7"); (u "v", u "x y"); (u "c", u "0.9")].
Example quoted_example :
  (rdo fs <- pipe (quoted_stages q_cfg {| fn_params := fun _ => None; fn_apply := fun _ _ => FRaise; fn_table := [] |} q_outer q_inner) [q_row]; extract_triples fs)
  = Ok [u "<< <http://e/7> <http://e/p> ""x y"" >> <http://e/certainty> ""0.9"""] /\
  spec_quoted_line q_scfg q_outer q_inner (srow_of q_row) = Some (u "<< <http://e/7> <http://e/p> ""x y"" >> <http://e/certainty> ""0.9""").
Proof. vm_compute. split; reflexivity. Qed.
Print Assumptions quoted_example.

(* THE WHOLE DOCUMENT (quoted subject maps, one level, over the same rows): for documents whose triples maps are plain (constants,
   references, templates) or quote a plain triples map of the document in their subject map, asserted or not, what the engine
   materialises from the normalised rule table (one copy of every quoting rule per rule of the quoted map) over the delivered rows
   is exactly what the generation rules read off the surface document: a quoting triples map yields, for every row, one statement
   << s p o >> p' o' [g] per triple s p o that the quoted map generates FOR THAT ROW and places in at least one graph -- both output
   formats, every document, every table.  The hypotheses are the decidable predicates of Model/Fragment.v. *)
From Morph Require Import Model.Fragment Proofs.DocSpecP Proofs.DocEngineP Proofs.DocJoinP Proofs.DocQuotedP.
Theorem document_rules_with_quoted_subjects_are_rule_table_rules : forall scfg fe tables d0 rules,
  quoted_doc d0 = true -> normalise d0 = Ok rules -> nodupb (map r_id rules) = true ->
  forall x, In x (spec_lines scfg fe d0 tables) <->
    (exists rl sr, In rl rules /\ r_asserted rl = true /\ r_sk rl <> KQuoted /\ In sr (tables (r_src rl)) /\ doc_rule_line scfg rl sr = Some x) \/
    (exists rl b sr, In rl rules /\ r_asserted rl = true /\ r_sk rl = KQuoted /\ find_rule rules (r_sv rl) = Some b /\
                     In sr (tables (r_src rl)) /\ doc_quoted_line scfg rl b sr = Some x).
Proof. exact doc_spec_is_rule_spec_quoted. Qed.
Print Assumptions document_rules_with_quoted_subjects_are_rule_table_rules.
Theorem engine_document_with_quoted_subjects_is_generation_rules_document : forall cfg fe scfg raw,
  cfg_agree cfg scfg -> c_nquads cfg = s_nquads scfg -> s_na scfg = c_na cfg ->
  forall d0 rules l,
    quoted_doc d0 = true -> normalise d0 = Ok rules -> nodupb (map r_id rules) = true ->
    (forall rl, In rl rules -> simple_rule rl \/ quoting_rule_ok rules rl) ->
    (forall rl rw n, In rl rules -> In rw (raw (r_src rl)) -> In n (rule_ref_set fe rules rl) -> assoc n rw <> None) ->
    materialize_rules cfg fe rules (delivered cfg raw) = Ok l ->
    forall x, In x l <-> In x (spec_lines scfg fe d0 (spec_tables raw)).
Proof. exact engine_document_is_spec_document_quoted. Qed.
Print Assumptions engine_document_with_quoted_subjects_is_generation_rules_document.
Theorem quoted_fragment_is_decidable : forall d0, theorem_applies_quoted d0 = true ->
  quoted_doc d0 = true /\ exists rules, normalise d0 = Ok rules /\ nodupb (map r_id rules) = true /\ forall rl, In rl rules -> simple_rule rl \/ quoting_rule_ok rules rl.
Proof. exact theorem_applies_quoted_ok. Qed.
Print Assumptions quoted_fragment_is_decidable.

(* non-vacuity: a non-asserted map with two predicate-object maps and a graph map, quoted by an asserted map; a NULL in a column of the
   quoted map; both output formats *)
Definition tmq (k : mkind) (v : string) : tmap := mk_tmap k (u v) CkIri None.
Definition dq : document :=
  [{| t_id := u "#Inner"; t_src := u "S"; t_nonasserted := true; t_subj := tmq KTempl "http://e/{id}"; t_sjoins := [];
      t_classes := []; t_sgraphs := [];
      t_poms := [{| p_preds := [tmq KConst "http://e/name"]; p_objs := [{| o_tm := tmq KRef "name"; o_lang := None; o_dt := None; o_joins := [] |}]; p_graphs := [] |};
                 {| p_preds := [tmq KConst "http://e/age"]; p_objs := [{| o_tm := tmq KRef "age"; o_lang := None; o_dt := None; o_joins := [] |}]; p_graphs := [tmq KTempl "http://e/g/{id}"] |}] |};
   {| t_id := u "#Outer"; t_src := u "S"; t_nonasserted := false; t_subj := mk_tmap KQuoted (u "#Inner") CkIri None; t_sjoins := [];
      t_classes := []; t_sgraphs := [];
      t_poms := [{| p_preds := [tmq KConst "http://e/saidBy"]; p_objs := [{| o_tm := tmq KTempl "http://e/src/{src}"; o_lang := None; o_dt := None; o_joins := [] |}]; p_graphs := [] |}] |}].
Definition rawq (src : ustr) : list rawrow :=
  [[(u "id", CStr (u "1")); (u "name", CStr (u "Ann")); (u "age", CStr (u "30")); (u "src", CStr (u "a"))];
   [(u "id", CStr (u "2")); (u "name", CNone); (u "age", CStr (u "41")); (u "src", CStr (u "b"))]].
Definition cfgq (nq : bool) : ecfg := {| c_nquads := nq; c_printable := true; c_safe := []; c_na := [[]] |}.
Definition scfgq (nq : bool) : scfg := {| s_nquads := nq; s_printable := true; s_safe := []; s_na := [[]] |}.
Definition feq : fenv := {| fn_params := fun _ => None; fn_apply := fun _ _ => FRaise; fn_table := [] |}.
Example end_to_end_quoted_example : forall nq,
  theorem_applies_quoted dq = true /\
  match normalise dq with
  | Ok rules => match materialize_rules (cfgq nq) feq rules (delivered (cfgq nq) rawq) with
                | Ok l => forallb (fun x => mem x (spec_lines (scfgq nq) feq dq (spec_tables rawq))) l = true
                          /\ length l = length (spec_lines (scfgq nq) feq dq (spec_tables rawq)) /\ length l = 3%nat
                          /\ mem (u "<< <http://e/1> <http://e/name> ""Ann"" >> <http://e/saidBy> <http://e/src/a>" ++ (if nq then [32] else [])) l = true
                | Err _ => False
                end
  | Err _ => False
  end.
Proof. intros [|]; vm_compute; repeat split; reflexivity. Qed.
Print Assumptions end_to_end_quoted_example.

(* ... AND QUOTED OBJECT MAPS (one level, over the same rows): the same end-to-end statement for documents whose triples maps have plain
   subject maps and predicate-object maps holding either ordinary object maps or object maps that quote a plain triples map of the
   document: such an object map yields s p << t >> [g] for every triple t the quoted map generates for that row and places in a graph *)
From Morph Require Import Proofs.DocQuotedObjP.
Theorem document_rules_with_quoted_objects_are_rule_table_rules : forall scfg fe tables d0 rules,
  qobj_doc d0 = true -> normalise d0 = Ok rules -> nodupb (map r_id rules) = true ->
  forall x, In x (spec_lines scfg fe d0 tables) <->
    (exists rl sr, In rl rules /\ r_asserted rl = true /\ r_ok rl <> KQuoted /\ In sr (tables (r_src rl)) /\ doc_rule_line scfg rl sr = Some x) \/
    (exists rl b sr, In rl rules /\ r_asserted rl = true /\ r_ok rl = KQuoted /\ find_rule rules (r_ov rl) = Some b /\
                     In sr (tables (r_src rl)) /\ doc_qobj_line scfg rl b sr = Some x).
Proof. exact doc_spec_is_rule_spec_qobj. Qed.
Print Assumptions document_rules_with_quoted_objects_are_rule_table_rules.
Theorem engine_document_with_quoted_objects_is_generation_rules_document : forall cfg fe scfg raw,
  cfg_agree cfg scfg -> c_nquads cfg = s_nquads scfg -> s_na scfg = c_na cfg ->
  forall d0 rules l,
    qobj_doc d0 = true -> normalise d0 = Ok rules -> nodupb (map r_id rules) = true ->
    (forall rl, In rl rules -> simple_rule rl \/ qobj_rule_ok rules rl) ->
    (forall rl rw n, In rl rules -> In rw (raw (r_src rl)) -> In n (rule_ref_set fe rules rl) -> assoc n rw <> None) ->
    materialize_rules cfg fe rules (delivered cfg raw) = Ok l ->
    forall x, In x l <-> In x (spec_lines scfg fe d0 (spec_tables raw)).
Proof. exact engine_document_is_spec_document_qobj. Qed.
Print Assumptions engine_document_with_quoted_objects_is_generation_rules_document.
Theorem quoted_object_fragment_is_decidable : forall d0, theorem_applies_qobj d0 = true ->
  qobj_doc d0 = true /\ exists rules, normalise d0 = Ok rules /\ nodupb (map r_id rules) = true /\ forall rl, In rl rules -> simple_rule rl \/ qobj_rule_ok rules rl.
Proof. exact theorem_applies_qobj_ok. Qed.
Print Assumptions quoted_object_fragment_is_decidable.

Definition dqo : document :=
  [{| t_id := u "#Inner"; t_src := u "S"; t_nonasserted := true; t_subj := tmq KTempl "http://e/{id}"; t_sjoins := [];
      t_classes := []; t_sgraphs := [];
      t_poms := [{| p_preds := [tmq KConst "http://e/name"]; p_objs := [{| o_tm := tmq KRef "name"; o_lang := None; o_dt := None; o_joins := [] |}]; p_graphs := [] |};
                 {| p_preds := [tmq KConst "http://e/age"]; p_objs := [{| o_tm := tmq KRef "age"; o_lang := None; o_dt := None; o_joins := [] |}]; p_graphs := [] |}] |};
   {| t_id := u "#Outer"; t_src := u "S"; t_nonasserted := false; t_subj := tmq KTempl "http://e/src/{src}"; t_sjoins := [];
      t_classes := [u "http://e/Source"]; t_sgraphs := [tmq KConst "http://e/g"];
      t_poms := [{| p_preds := [tmq KConst "http://e/says"]; p_objs := [{| o_tm := mk_tmap KQuoted (u "#Inner") CkIri None; o_lang := None; o_dt := None; o_joins := [] |}]; p_graphs := [] |}] |}].
Example end_to_end_quoted_object_example : forall nq,
  theorem_applies_qobj dqo = true /\
  match normalise dqo with
  | Ok rules => match materialize_rules (cfgq nq) feq rules (delivered (cfgq nq) rawq) with
                | Ok l => forallb (fun x => mem x (spec_lines (scfgq nq) feq dqo (spec_tables rawq))) l = true
                          /\ length l = length (spec_lines (scfgq nq) feq dqo (spec_tables rawq)) /\ length l = 5%nat
                          /\ mem (u "<http://e/src/b> <http://e/says> << <http://e/2> <http://e/age> ""41"" >>" ++ (if nq then u " <http://e/g>" else [])) l = true
                | Err _ => False
                end
  | Err _ => False
  end.
Proof. intros [|]; vm_compute; repeat split; reflexivity. Qed.
Print Assumptions end_to_end_quoted_object_example.

(* FOR EVERY DOCUMENT, at any nesting depth: whatever triples maps are declared rml:NonAssertedTriplesMap (`na` chooses the flag of each), the terms
   and quoted triples of every triples map are unchanged -- a quoted map is quoted the same whether or not it is asserted -- and the document gives
   exactly the statements of the triples maps asserted under the new flags, each as before (generation rules; `Proofs/DocAssertP.v`) *)
From Morph Require Import Proofs.DocAssertP.
Theorem quoting_does_not_depend_on_assertedness : forall scfg fe d tables na f t r,
  subj_terms scfg fe (map (reflag na) d) tables f (reflag na t) r = subj_terms scfg fe d tables f t r /\
  tm_triples scfg fe (map (reflag na) d) tables f (reflag na t) r = tm_triples scfg fe d tables f t r /\
  (forall o, obj_terms scfg fe (map (reflag na) d) tables f (reflag na t) o r = obj_terms scfg fe d tables f t o r).
Proof. exact terms_reflag. Qed.
Print Assumptions quoting_does_not_depend_on_assertedness.
Theorem assertedness_only_selects_the_contributing_triples_maps : forall scfg fe d tables na x,
  In x (spec_lines scfg fe (map (reflag na) d) tables) <->
  exists t r, In t d /\ asserted (reflag na t) = true /\ In r (tables (t_src t)) /\ In x (tm_row_lines scfg fe d tables t r).
Proof. exact reflagged_document_lines. Qed.
Print Assumptions assertedness_only_selects_the_contributing_triples_maps.
