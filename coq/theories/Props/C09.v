(* C09 — the surface syntax of a mapping never changes its meaning.  Statements only.
   The abstract syntax of Model/Mapping.v already identifies vocabularies and constant shortcuts (they are spellings that the
   correspondence check renders and compares on the implementation); what remains inside the model are the three
   factorings the property names: classes, graph maps, multi-valued predicate-object maps. *)
From Coq Require Import String.
From Morph Require Import Base.UStr Gen.Tables Model.Terms Model.Data Model.Engine Model.Mapping Proofs.NormaliseP.
Local Open Scope N_scope.

(* rr:class against explicit rdf:type predicate-object maps: the same rule table, for every document *)
Theorem classes_as_type_poms : forall d, normalise (map class_to_pom d) = normalise d.
Proof. exact normalise_classes_as_poms. Qed.
Print Assumptions classes_as_type_poms.

(* graph maps on the subject map against the same graph maps repeated on every predicate-object map *)
Theorem subject_graphs_on_every_pom : forall d, normalise (map graphs_on_poms d) = normalise d.
Proof. exact normalise_graphs_on_poms. Qed.
Print Assumptions subject_graphs_on_every_pom.

(* the fully explicit spelling (classes as maps, graphs on every map, rml:defaultGraph written out) *)
Theorem explicit_spelling : forall d, normalise (prepare d) = normalise d.
Proof. exact normalise_explicit. Qed.
Print Assumptions explicit_spelling.

(* multi-valued against split predicate-object maps: the same rules in the same order, the same rejections; for every
   document whose maps do not mix referencing and ordinary object maps in one predicate-object map *)
Theorem multi_valued_as_split : forall d, all_unmixed d = true -> normalise (map split_tm d) = normalise d.
Proof. exact normalise_split. Qed.
Print Assumptions multi_valued_as_split.

(* non-vacuity: a document with a class, a subject graph map and a 2 x 2 predicate-object map *)
Definition ex_tm (k : mkind) (v : string) : tmap := mk_tmap k (u v) CkIri None.
Definition ex_doc : document :=
  [{| t_id := u "#TM"; t_src := u "S"; t_nonasserted := false; t_subj := ex_tm KTempl "http://e/{id}"; t_sjoins := [];
      t_classes := [u "http://e/C"]; t_sgraphs := [ex_tm KTempl "http://e/g/{id}"];
      t_poms := [{| p_preds := [ex_tm KConst "http://e/p1"; ex_tm KConst "http://e/p2"];
                    p_objs := [plain_obj (ex_tm KRef "a"); plain_obj (ex_tm KTempl "http://e/o/{b}")]; p_graphs := [] |}] |}].
Example ex_doc_unmixed : all_unmixed ex_doc = true /\ map split_tm ex_doc <> ex_doc /\
  (exists rs, normalise ex_doc = Ok rs /\ length rs = 5%nat).
Proof. split; [reflexivity|split; [discriminate|]]. vm_compute. eexists. split; reflexivity. Qed.
Print Assumptions ex_doc_unmixed.

(* the order in which the triples maps are written in the mapping file is surface syntax too: for every document with distinct triples map
   identifiers the generation rules give the same statements for every permutation of its triples maps (`Proofs/DocOrderP.v`) *)
From Coq Require Import Permutation.
From Morph Require Import Model.Spec Proofs.DocOrderP.
Theorem order_of_triples_maps_is_irrelevant : forall scfg fe tables d d', Permutation d d' -> NoDup (map t_id d) ->
  forall x, In x (spec_lines scfg fe d tables) <-> In x (spec_lines scfg fe d' tables).
Proof. exact document_order_irrelevant. Qed.
Print Assumptions order_of_triples_maps_is_irrelevant.
