(* C08 — statements land in exactly the graphs their graph maps name.  Statements only. *)
From Morph Require Import Base.UStr Gen.Tables Model.Terms Model.Data Model.Engine Model.Mapping Proofs.GraphsP.

(* normalisation (class -> POM, subject graphs -> POMs, default graph, in the code order): every predicate-object map is
   given exactly the graph maps of its own and of the subject map, and the default graph iff there is none at all *)
Theorem pom_gets_exactly_its_graphs : forall t p, In p (t_poms t) ->
  exists p', In p' (t_poms (complete_default_graph (sgraphs_to_pom (class_to_pom t)))) /\ p_preds p' = p_preds p /\ p_objs p' = p_objs p /\
             p_graphs p' = placed_graphs t p.
Proof. exact pom_graphs. Qed.
Print Assumptions pom_gets_exactly_its_graphs.
Theorem default_graph_iff_none : forall t p, placed_graphs t p = [const_iri Tables.c_rml_default_graph] <->
  (p_graphs p ++ t_sgraphs t = [] \/ p_graphs p ++ t_sgraphs t = [const_iri Tables.c_rml_default_graph]).
Proof. exact default_graph_iff. Qed.
Print Assumptions default_graph_iff_none.
(* class declarations are placed in the graphs of the subject map *)
Theorem class_statements_in_subject_graphs : forall t c, In c (t_classes t) ->
  exists p', In p' (t_poms (complete_default_graph (sgraphs_to_pom (class_to_pom t)))) /\
             p_preds p' = [const_iri Tables.c_rdf_type] /\ p_objs p' = [plain_obj (const_iri c)] /\
             p_graphs p' = match t_sgraphs t with [] => [const_iri Tables.c_rml_default_graph] | gs => gs end.
Proof. exact class_graphs. Qed.
Print Assumptions class_statements_in_subject_graphs.
(* engine: rr:defaultGraph gives an empty graph component; N-TRIPLES lines are exactly subject predicate object *)
Theorem default_graph_has_empty_component : forall cfg fe rl r l, c_nquads cfg = true -> r_gk rl = KConst -> r_gv rl = Tables.c_rml_default_graph ->
  finish_row cfg fe 0 rl r = Ok l -> forall r', In r' l -> exists t, rget col_triple r' = Some (t ++ [32%N]).
Proof. exact finish_default_graph. Qed.
Print Assumptions default_graph_has_empty_component.
Theorem ntriples_is_graphless : forall cfg fe rl r l, c_nquads cfg = false -> finish_row cfg fe 0 rl r = Ok l ->
  exists s p o, rget col_subject r = Some s /\ rget col_predicate r = Some p /\ rget col_object r = Some o /\
                forall r', In r' l -> rget col_triple r' = Some (s ++ [32%N] ++ p ++ [32%N] ++ o).
Proof. exact finish_ntriples. Qed.
Print Assumptions ntriples_is_graphless.
