(* C08 — statements land in exactly the graphs their graph maps name.  Statements only. *)
From Morph Require Import Base.UStr Gen.Tables Model.Terms Model.Data Model.Engine Model.Mapping Proofs.GraphsP.

(* normalisation (class -> POM, subject graphs -> POMs, default graph, in the code order): every predicate-object map is
   given exactly the graph maps of its own and of the subject map, and the default graph iff there is none at all *)
Theorem pom_gets_exactly_its_graphs : forall t p, In p (t_poms t) ->
  exists p', In p' (t_poms (complete_default_graph (sgraphs_to_pom (class_to_pom t)))) /\ p_preds p' = p_preds p /\ p_objs p' = p_objs p /\
             p_graphs p' = placed_graphs t p.
Proof. exact pom_graphs. Qed.
Print Assumptions pom_gets_exactly_its_graphs.
Theorem default_graph_iff_none : forall t p, placed_graphs t p = [const_iri Tables.c_rml_default_graph] <->
  (p_graphs p ++ t_sgraphs t = [] \/ p_graphs p ++ t_sgraphs t = [const_iri Tables.c_rml_default_graph]).
Proof. exact default_graph_iff. Qed.
Print Assumptions default_graph_iff_none.
(* class declarations are placed in the graphs of the subject map *)
Theorem class_statements_in_subject_graphs : forall t c, In c (t_classes t) ->
  exists p', In p' (t_poms (complete_default_graph (sgraphs_to_pom (class_to_pom t)))) /\
             p_preds p' = [const_iri Tables.c_rdf_type] /\ p_objs p' = [plain_obj (const_iri c)] /\
             p_graphs p' = match t_sgraphs t with [] => [const_iri Tables.c_rml_default_graph] | gs => gs end.
Proof. exact class_graphs. Qed.
Print Assumptions class_statements_in_subject_graphs.
(* engine: rr:defaultGraph gives an empty graph component; N-TRIPLES lines are exactly subject predicate object *)
Theorem default_graph_has_empty_component : forall cfg fe rl r l, c_nquads cfg = true -> r_gk rl = KConst -> r_gv rl = Tables.c_rml_default_graph ->
  finish_row cfg fe 0 rl r = Ok l -> forall r', In r' l -> exists t, rget col_triple r' = Some (t ++ [32%N]).
Proof. exact finish_default_graph. Qed.
Print Assumptions default_graph_has_empty_component.
Theorem ntriples_is_graphless : forall cfg fe rl r l, c_nquads cfg = false -> finish_row cfg fe 0 rl r = Ok l ->
  exists s p o, rget col_subject r = Some s /\ rget col_predicate r = Some p /\ rget col_object r = Some o /\
                forall r', In r' l -> rget col_triple r' = Some (s ++ [32%N] ++ p ++ [32%N] ++ o).
Proof. exact finish_ntriples. Qed.
Print Assumptions ntriples_is_graphless.

From Coq Require Import String.
From Morph Require Import Model.Spec Model.Fragment Proofs.TemplateP Proofs.TermP Proofs.RowSpecP Proofs.DocSpecP Proofs.DocEngineP Proofs.FormatP.
Local Open Scope N_scope.
(* the two output formats, for the generation rules on every document and every table: the N-TRIPLES result is exactly
   the graph-less projection of the N-QUADS result *)
Theorem rules_ntriples_is_projection_of_nquads : forall c fe doc tables,
  (forall x, In x (spec_lines (with_nq false c) fe doc tables) -> exists g, In (x ++ [32] ++ g) (spec_lines (with_nq true c) fe doc tables)) /\
  (forall y, In y (spec_lines (with_nq true c) fe doc tables) -> exists x g, y = x ++ [32] ++ g /\ In x (spec_lines (with_nq false c) fe doc tables)).
Proof. exact spec_ntriples_is_projection. Qed.
Print Assumptions rules_ntriples_is_projection_of_nquads.
(* and for the engine, on documents of constant / reference / template maps (through the end-to-end theorem of C01) *)
Theorem engine_ntriples_is_projection_of_nquads : forall cfg fe scfg raw d0 rules lt lq,
  cfg_agree cfg scfg -> s_na scfg = c_na cfg ->
  forallb plain_tm d0 = true -> normalise d0 = Ok rules -> (forall rl, In rl rules -> simple_rule rl) ->
  (forall rl rw n, In rl rules -> In rw (raw (r_src rl)) -> In n (rule_names rl) -> assoc n rw <> None) ->
  materialize_rules (with_cnq false cfg) fe rules (delivered (with_cnq false cfg) raw) = Ok lt ->
  materialize_rules (with_cnq true cfg) fe rules (delivered (with_cnq true cfg) raw) = Ok lq ->
  (forall x, In x lt -> exists g, In (x ++ [32] ++ g) lq) /\
  (forall y, In y lq -> exists x g, y = x ++ [32] ++ g /\ In x lt).
Proof. exact engine_ntriples_is_projection. Qed.
Print Assumptions engine_ntriples_is_projection_of_nquads.

(* a statement of a referencing object map (joined row): its graph is generated from the CHILD row alone -- `spec_graph_line scfg rl csr`
   reads only the child row `csr`, whatever the parent row holds under the same column names; the parent row gives the object only *)
From Morph Require Import Model.Spec Proofs.RowSpecP Proofs.JoinRuleP.
Theorem joined_statement_takes_its_graph_from_the_child_row : forall cfg fe scfg, cfg_agree cfg scfg -> c_nquads cfg = s_nquads scfg ->
  forall rl q, pos_ok (r_sk rl) (r_sv rl) (r_stt rl) -> pos_ok (r_pk rl) (r_pv rl) TIri ->
    (is_plain (r_sk q) = true /\ term_wf (r_sk q) (r_sv q) = true /\ (r_ott rl = TLit -> lits_neutral (segs_of (r_sk q) (r_sv q)) = true)) ->
    (r_ld rl <> LDNone -> pos_ok (r_ldk rl) (r_ldv rl) TNone) -> graph_ok (c_nquads cfg) rl ->
  forall x csr psr, row_agree scfg csr [] x (child_names rl) -> row_agree scfg psr parent_prefix x (parent_names q) ->
  forall ls, (rdo ts <- mat_terms cfg fe (join_rule rl q) parent_prefix x;
              rdo fs <- rflat_rows (finish_row cfg fe 0 rl) ts; extract_triples fs) = Ok ls ->
    exists line t, ls = [line] /\ spec_graph_line scfg rl csr t = Some line.
Proof. exact join_row_graph_from_child_row. Qed.
Print Assumptions joined_statement_takes_its_graph_from_the_child_row.
