(* C07 — referencing object maps implement the relational inner equi-join.  Statements only. *)
From Morph Require Import Base.UStr Model.Terms Model.Data Model.Engine Model.Mapping Model.Spec Proofs.JoinP.

(* the engine's merge (pandas index join for one condition, merge for several: the same relation in the model) holds
   exactly one row per pair of child and parent rows that agree on ALL join conditions -- duplicate keys on either side
   give the full cross product of the matches, unmatched rows give nothing *)
Theorem merge_is_inner_equijoin : forall child parent conds m, merge_data child parent conds = Ok m ->
  forall x, In x m <-> exists c p, In c child /\ In p parent /\ joins c p conds /\ x = c ++ add_prefix parent_prefix p.
Proof. exact merge_is_equijoin. Qed.
Print Assumptions merge_is_inner_equijoin.
(* the specification's join: a parent row is joined iff every condition compares two non-null equal values *)
Theorem spec_join_rows : forall cfg tables child src conds p, conds <> [] ->
  (In p (joined_rows cfg tables child src conds) <-> In p (tables src) /\ conds_hold cfg child p conds = true).
Proof. exact joined_rows_spec. Qed.
Print Assumptions spec_join_rows.
