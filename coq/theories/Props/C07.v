(* C07 — referencing object maps implement the relational inner equi-join.  Statements only. *)
From Morph Require Import Base.UStr Model.Terms Model.Data Model.Engine Model.Mapping Model.Spec Proofs.JoinP.

(* the engine's merge (pandas index join for one condition, merge for several: the same relation in the model) holds
   exactly one row per pair of child and parent rows that agree on ALL join conditions -- duplicate keys on either side
   give the full cross product of the matches, unmatched rows give nothing *)
Theorem merge_is_inner_equijoin : forall child parent conds m, merge_data child parent conds = Ok m ->
  forall x, In x m <-> exists c p, In c child /\ In p parent /\ joins c p conds /\ x = c ++ add_prefix parent_prefix p.
Proof. exact merge_is_equijoin. Qed.
Print Assumptions merge_is_inner_equijoin.
(* the specification's join: a parent row is joined iff every condition compares two non-null equal values *)
Theorem spec_join_rows : forall cfg tables child src conds p, conds <> [] ->
  (In p (joined_rows cfg tables child src conds) <-> In p (tables src) /\ conds_hold cfg child p conds = true).
Proof. exact joined_rows_spec. Qed.
Print Assumptions spec_join_rows.

From Coq Require Import String.
From Morph Require Import Gen.Tables Proofs.TemplateP Proofs.TermP Proofs.RowwiseP Proofs.RowSpecP Proofs.RuleSpecP Proofs.JoinRuleP.
Local Open Scope N_scope.
(* on frame rows the engine's join relation is the join condition of the generation rules on the corresponding rows *)
Theorem engine_join_is_spec_join : forall scfg c p csr psr conds,
  (forall cd, In cd conds -> sval scfg csr (fst cd) = rget (fst cd) c /\ sval scfg psr (snd cd) = rget (snd cd) p) ->
  (joins c p conds <-> conds_hold scfg csr psr conds = true).
Proof. exact joins_iff_conds_hold. Qed.
Print Assumptions engine_join_is_spec_join.

(* one joined row: subject, predicate (language / datatype, graph) from the child row, the object is the parent's subject
   term built from the parent row; no statement iff one of them is missing *)
Theorem join_row_statement : forall cfg fe scfg, cfg_agree cfg scfg -> c_nquads cfg = s_nquads scfg ->
  forall rl q, pos_ok (r_sk rl) (r_sv rl) (r_stt rl) -> pos_ok (r_pk rl) (r_pv rl) TIri ->
    (is_plain (r_sk q) = true /\ term_wf (r_sk q) (r_sv q) = true /\ (r_ott rl = TLit -> lits_neutral (segs_of (r_sk q) (r_sv q)) = true)) ->
    (r_ld rl <> LDNone -> pos_ok (r_ldk rl) (r_ldv rl) TNone) -> graph_ok (c_nquads cfg) rl ->
  forall x csr psr, row_agree scfg csr [] x (child_names rl) -> row_agree scfg psr parent_prefix x (parent_names q) ->
    match (rdo ts <- mat_terms cfg fe (join_rule rl q) parent_prefix x;
           rdo fs <- rflat_rows (finish_row cfg fe 0 rl) ts; extract_triples fs) with
    | Ok ls => exists line, spec_join_line scfg rl q csr psr = Some line /\ ls = [line]
    | Err _ => spec_join_line scfg rl q csr psr = None
    end.
Proof. exact join_row_is_spec. Qed.
Print Assumptions join_row_statement.

(* the whole rule: its statements are exactly those of the pairs (child row, parent row) of the two preprocessed frames
   that agree on every join condition -- many-to-many matches give all pairs, unmatched rows and NULL keys give nothing *)
Theorem join_rule_statements : forall cfg fe rules get_data scfg, cfg_agree cfg scfg -> c_nquads cfg = s_nquads scfg ->
  forall rl q, r_ok rl = KParent -> find_rule rules (r_ov rl) = Some q ->
    pos_ok (r_sk rl) (r_sv rl) (r_stt rl) -> pos_ok (r_pk rl) (r_pv rl) TIri ->
    (is_plain (r_sk q) = true /\ term_wf (r_sk q) (r_sv q) = true /\ (r_ott rl = TLit -> lits_neutral (segs_of (r_sk q) (r_sv q)) = true)) ->
    (r_ld rl <> LDNone -> pos_ok (r_ldk rl) (r_ldv rl) TNone) -> graph_ok (c_nquads cfg) rl ->
  forall na crefs prefs fc fp,
    s_na scfg = na -> incl (child_names rl) crefs -> incl (parent_names q) prefs ->
    get_data (r_src rl) (join_crefs fe rules rl) = Ok (preprocess na crefs fc) ->
    get_data (r_src q) (join_prefs fe rules rl q) = Ok (preprocess na prefs fp) ->
    (forall c k, In c (preprocess na crefs fc) -> rget (parent_prefix ++ k) c = None) ->
    (forall n k, In n (child_names rl) -> n <> parent_prefix ++ k) ->
    forall ls, rule_triples cfg fe rules get_data rl = Ok ls ->
      forall x, In x ls <-> exists c p, In c (preprocess na crefs fc) /\ In p (preprocess na prefs fp) /\ joins c p (r_ojoin rl) /\
                                      spec_join_line scfg rl q (srow_of c) (srow_of p) = Some x.
Proof. exact join_rule_is_spec. Qed.
Print Assumptions join_rule_statements.

(* non-vacuity: a concrete join with a duplicated key on the parent side *)
Definition jr (id : string) sk sv ok ov oj : rule :=
  {| r_id := u id; r_tm := u id; r_src := u id; r_asserted := true; r_sk := sk; r_sv := u sv; r_stt := TIri;
     r_pk := KConst; r_pv := u "http://e/p"; r_ok := ok; r_ov := u ov; r_ott := TIri; r_ld := LDNone; r_ldk := KNone; r_ldv := [];
     r_gk := KNone; r_gv := []; r_sjoin := []; r_ojoin := oj |}.
Definition j_child := jr "C" KTempl "http://e/c/{id}" KParent "P" [(u "k", u "pk")].
Definition j_parent := jr "P" KTempl "http://e/p/{pid}" KConst "http://e/x" [].
Definition j_get (src : ustr) (refs : list ustr) : result frame :=
  if ueqb src (u "C") then Ok [[(u "id", u "1"); (u "k", u "a")]; [(u "id", u "2"); (u "k", u "z")]]
  else Ok [[(u "pid", u "10"); (u "pk", u "a")]; [(u "pid", u "11"); (u "pk", u "a")]].
Example join_example :
  rule_triples {| c_nquads := false; c_printable := true; c_safe := []; c_na := [] |}
               {| fn_params := fun _ => None; fn_apply := fun _ _ => FRaise; fn_table := [] |} [j_child; j_parent] j_get j_child
  = Ok [u "<http://e/c/1> <http://e/p> <http://e/p/10>"; u "<http://e/c/1> <http://e/p> <http://e/p/11>"].
Proof. vm_compute. reflexivity. Qed.
Print Assumptions join_example.

(* the whole document: with referencing object maps, what the engine materialises is what the generation rules prescribe
   (stated and explained in Props/C01.v; repeated here because it is the document-level form of this property) *)
From Morph Require Import Model.Fragment Proofs.DocEngineP Proofs.DocJoinP.
Theorem document_with_joins_is_generation_rules_document : forall cfg fe scfg raw,
  cfg_agree cfg scfg -> c_nquads cfg = s_nquads scfg -> s_na scfg = c_na cfg ->
  forall d0 rules l,
    forallb jplain_tm d0 = true -> nodupb (map t_id d0) = true -> parents_ok d0 = true -> normalise d0 = Ok rules -> nodupb (map r_id rules) = true ->
    (forall rl, In rl rules -> simple_rule rl \/ join_rule_ok rules rl) ->
    (forall rl rw n, In rl rules -> In rw (raw (r_src rl)) -> In n (rule_names rl ++ child_names rl ++ joins_child (r_ojoin rl)) -> assoc n rw <> None) ->
    (forall src rw k, In rw (raw src) -> assoc (parent_prefix ++ k) rw = None) ->
    materialize_rules cfg fe rules (delivered cfg raw) = Ok l ->
    forall x, In x l <-> In x (spec_lines scfg fe d0 (spec_tables raw)).
Proof. exact engine_document_is_spec_document_joins. Qed.
Print Assumptions document_with_joins_is_generation_rules_document.
