(* C20 — inferred literal datatypes follow the R2RML natural mapping of SQL types.  Statements only. *)
From Morph Require Import Base.UStr Gen.Tables Model.SqlTypes Model.Spec20 Proofs.SqlTypesP Proofs.C20Table.

(* every catalogue type name of the specification table is mapped as the natural mapping says -- against the table
   REGENERATED from the current source, in the iteration order of the current code -- except the names listed in
   [c20_known_bad] (each of which is a recorded finding with its own refutation in Findings/C20.v) *)
Theorem natural_mapping_table_partial :
  forall t x, In (t, x) catalog_types -> mem t c20_known_bad = false -> lookup Tables.sql_rdf_datatype t = x.
Proof. exact natural_mapping_table_partial_proof. Qed.
Print Assumptions natural_mapping_table_partial.

(* parameters never matter: TIMESTAMP(6), NUMBER(10,2), VARCHAR(255) ... for ANY type name and ANY parameter text
   made of digits, commas and blanks *)
Theorem params_irrelevant :
  forall t args, forallb arg_char args = true ->
    lookup Tables.sql_rdf_datatype (t ++ 40%N :: args ++ [41%N]) = lookup Tables.sql_rdf_datatype t.
Proof. exact params_irrelevant_proof. Qed.
Print Assumptions params_irrelevant.

(* explicit datatypes / language tags always win; inference off adds nothing; inference applies to RDB sources only *)
Theorem explicit_or_language_wins :
  forall enabled rdb lit isref d cat, inferred_datatype enabled rdb lit true isref (Some d) cat = Some d.
Proof. exact explicit_wins_l. Qed.
Print Assumptions explicit_or_language_wins.
Theorem inference_off_adds_nothing :
  forall rdb lit has isref x cat, inferred_datatype false rdb lit has isref x cat = x.
Proof. exact inference_off. Qed.
Print Assumptions inference_off_adds_nothing.
Theorem inference_rdb_only :
  forall enabled lit has isref x cat, inferred_datatype enabled false lit has isref x cat = x.
Proof. exact not_rdb. Qed.
Print Assumptions inference_rdb_only.
