(* C14 — function-valued term maps are evaluated per row with the documented semantics.  Statements only.
   Proved for executions whose inputs are constants, references and templates (names say _partial); nested executions
   (the engine explodes the frame per inner execution, the Spec takes the product of the inner value lists) are decided
   by the correspondence part of the check. *)
From Coq Require Import String.
From Morph Require Import Base.UStr Gen.Tables Model.Terms Model.Data Model.Engine Model.Mapping Model.Spec Model.Functions
     Proofs.SplitP Proofs.TemplateP Proofs.TermP Proofs.FnmlP Proofs.UnionP Proofs.GroupingP.
Local Open Scope N_scope.

(* _materialize_fnml_template is the template loop: it substitutes the raw values of the row into the template *)
Theorem fnml_template_is_substitution : forall segs r, wf segs = true -> fn_free (names segs) ->
  match fnml_template (flat segs) r with
  | Ok (v, r') => esubst (raw_val r) segs = Ok v /\
                  (forall c, ueqb c col_aux_fnml = false -> ueqb c col_refres = false -> rget c r' = rget c r)
  | Err e => esubst (raw_val r) segs = Err e
  end.
Proof. exact fnml_template_spec. Qed.
Print Assumptions fnml_template_is_substitution.

(* for each row the values of the execution are the function applied to that row's arguments: none for a null result
   (or a result that is a null token), one per element for a list result; the engine fails iff the function raises *)
Theorem execution_is_function_application_partial : forall scfg fe na eid r sr, s_na scfg = na ->
  (forall e, In e (exec_rows_of (fn_table fe) eid) -> input_ok e) ->
  (forall e, In e (exec_rows_of (fn_table fe) eid) -> fn_free (input_names e)) ->
  (forall e n, In e (exec_rows_of (fn_table fe) eid) -> In n (input_names e) -> exists x, rget n r = Some x /\ sval scfg sr n = Some x) ->
  forall f f',
  match exec_fnml na (fn_params fe) (fn_apply fe) (fn_table fe) (S f) eid r with
  | Ok rs => exists vals, spec_eval scfg fe (S f') eid sr = Some vals /\ map (rget eid) rs = map Some vals
  | Err _ => spec_eval scfg fe (S f') eid sr = None
  end.
Proof. exact flat_exec_is_application. Qed.
Print Assumptions execution_is_function_application_partial.

(* the terms: every result value becomes one term of the position's term type -- canonical lexical form and ECHAR escaping
   for a literal, the stripped text between angle brackets for an IRI, a label for a blank node -- exactly the terms the
   generation rules give a function-valued term map; the engine fails only where a value is ill-typed or the function raises *)
Theorem execution_terms_are_rule_terms_partial : forall cfg scfg fe, cfg_agree cfg scfg -> s_na scfg = c_na cfg ->
  forall eid pos tt dt r sr, (tt = TLit \/ tt = TIri \/ tt = TBnode) ->
  (forall e, In e (exec_rows_of (fn_table fe) eid) -> input_ok e) ->
  (forall e, In e (exec_rows_of (fn_table fe) eid) -> fn_free (input_names e)) ->
  (forall e n, In e (exec_rows_of (fn_table fe) eid) -> In n (input_names e) -> exists x, rget n r = Some x /\ sval scfg sr n = Some x) ->
  match mat_exec cfg fe eid pos tt dt r with
  | Ok rs => map (rget pos) rs = map Some (spec_terms scfg fe KExec eid tt dt sr)
  | Err e => e = EValue \/ e = EUnmodelled \/ spec_eval scfg fe (fnml_fuel (fn_table fe)) eid sr = None
  end.
Proof. exact exec_terms_are_spec_terms. Qed.
Print Assumptions execution_terms_are_rule_terms_partial.

(* the outcome of a rule with a function-valued term map does not depend on the other rules of the mapping *)
Theorem execution_rule_independent_of_other_rules : forall cfg fe get_data rules rules' rl,
  star_free rl = true -> mkind_eqb (r_ok rl) KParent = false ->
  rule_triples cfg fe rules get_data rl = rule_triples cfg fe rules' get_data rl.
Proof. intros cfg fe gd rules rules' rl H1 H2. apply rule_triples_indep; auto; intros; congruence. Qed.
Print Assumptions execution_rule_independent_of_other_rules.

(* documented contracts of built-in functions, for every argument *)
Theorem split_explode_contract : forall s sep l, sep <> [] ->
  apply_fun (mkgc "string_split_explode") [(u "string", s); (u "separator", sep)] = FList l -> join sep l = s.
Proof.
  intros s sep l Hs. unfold apply_fun.
  repeat match goal with |- context [is_fun ?a ?b] => let v := eval vm_compute in (is_fun a b) in change (is_fun a b) with v end.
  cbv iota. unfold farg. cbn [assoc u map list_ascii_of_string ueqb Ascii.N_of_ascii Ascii.N_of_digits N.eqb Pos.eqb andb N.add N.mul Pos.add Pos.mul].
  destruct sep; [contradiction|]. intro H. injection H as <-. now apply join_split.
Qed.
Print Assumptions split_explode_contract.
Theorem reverse_contract : forall s, apply_fun (grel "reverse") [(u "string", s)] = FStr (rev s) /\ rev (rev s) = s.
Proof.
  intro s. split; [|apply rev_involutive]. unfold apply_fun.
  repeat match goal with |- context [is_fun ?a ?b] => let v := eval vm_compute in (is_fun a b) in change (is_fun a b) with v end.
  reflexivity.
Qed.
Print Assumptions reverse_contract.
Theorem upper_case_contract : forall s, length (upper s) = length s /\ upper (upper s) = upper s.
Proof.
  intro s. split; [apply map_length|]. unfold upper. rewrite map_map. apply map_ext. intro c. unfold up1.
  destruct ((97 <=? c) && (c <=? 122)) eqn:E.
  - apply andb_true_iff in E as [E1 E2]. apply N.leb_le in E1, E2.
    assert (Hx : (97 <=? c - 32) = false) by (apply N.leb_gt; Lia.lia). rewrite Hx. reflexivity.
  - rewrite E. reflexivity.
Qed.
Print Assumptions upper_case_contract.

(* non-vacuity: a concrete execution over a template and a reference *)
Definition fx_table : list fexec :=
  [{| fe_id := u "#E"; fe_fun := mkgc "concat"; fe_param := grel "valueParam1"; fe_kind := KTempl; fe_value := u "{a}-{b}" |};
   {| fe_id := u "#E"; fe_fun := mkgc "concat"; fe_param := grel "valueParam2"; fe_kind := KRef; fe_value := u "c" |}].
Definition fx_env : fenv := {| fn_params := fun_params; fn_apply := apply_fun; fn_table := fx_table |}.
Example execution_example :
  (forall e, In e (exec_rows_of fx_table (u "#E")) -> input_ok e) /\
  match exec_fnml [] fun_params apply_fun fx_table 3 (u "#E") [(u "a", u "x"); (u "b", u "y"); (u "c", u "z")] with
  | Ok rs => map (rget (u "#E")) rs = [Some (u "x-yz")]
  | Err _ => False
  end.
Proof. split; [intros e H; vm_compute in H; destruct H as [H|[H|[]]]; subst e; vm_compute; first [exact I|reflexivity]|vm_compute; reflexivity]. Qed.
Print Assumptions execution_example.
