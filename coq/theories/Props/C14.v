(* C14 statements: being extended *)
From Morph Require Import Base.UStr.
