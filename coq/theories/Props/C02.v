(* C02 — mapping partitioning never changes the result.  Statements only. *)
From Morph Require Import Base.UStr Model.Terms Model.Data Model.Engine Model.Partition Model.Grouping Proofs.GroupingP Proofs.PartitionTotal.

(* For EVERY labelling of the rules (whatever PARTIAL-AGGREGATIONS, MAXIMAL or no partitioning computed), every rule table,
   every data access function: materialising group by group and uniting the group results gives exactly the statements of
   materialising rule by rule ... *)
Theorem grouping_irrelevant :
  forall cfg fe rules get_data (lab : rule -> label) l1 l2,
    materialize_grouped cfg fe rules get_data lab = Ok l1 -> materialize_rules cfg fe rules get_data = Ok l2 ->
    forall x, In x l1 <-> In x l2.
Proof. exact grouped_same_statements. Qed.
Print Assumptions grouping_irrelevant.

(* ... and fails exactly when that fails *)
Theorem grouping_fails_iff :
  forall cfg fe rules get_data (lab : rule -> label),
    (exists e, materialize_grouped cfg fe rules get_data lab = Err e) <-> (exists e, materialize_rules cfg fe rules get_data = Err e).
Proof. exact grouped_err_iff. Qed.
Print Assumptions grouping_fails_iff.

(* hence two labellings give the same statements *)
Theorem modes_agree :
  forall cfg fe rules get_data (lab1 lab2 : rule -> label) l1 l2,
    materialize_grouped cfg fe rules get_data lab1 = Ok l1 -> materialize_grouped cfg fe rules get_data lab2 = Ok l2 ->
    forall x, In x l1 <-> In x l2.
Proof.
  intros cfg fe rules gd lab1 lab2 l1 l2 H1 H2 x.
  destruct (materialize_rules cfg fe rules gd) as [l|e] eqn:E.
  - rewrite (grouped_same_statements _ _ _ _ _ _ _ H1 E x). symmetry. exact (grouped_same_statements _ _ _ _ _ _ _ H2 E x).
  - exfalso. assert (H : exists e, materialize_grouped cfg fe rules gd lab1 = Err e) by (apply grouped_err_iff; eauto).
    destruct H as (e' & H). congruence.
Qed.
Print Assumptions modes_agree.

(* the partitioners themselves are total on rule tables whose templates all contain a reference (they raise otherwise:
   Findings/C02.v) *)
Theorem partition_total :
  forall rules, forallb (rule_ok rules) rules = true -> pa_labels rules <> None /\ forall ord, max_labels_for rules ord <> None.
Proof. exact PartitionTotal.partition_total. Qed.
Print Assumptions partition_total.
Theorem partition_fails_iff :
  forall rules, pa_labels rules = None <-> exists r, In r rules /\ keys_of rules r = None.
Proof. exact pa_labels_none. Qed.
Print Assumptions partition_fails_iff.

(* AT DOCUMENT LEVEL: whatever mapping groups the partitioner forms (any labelling of the rules), what the engine materialises group by
   group for a document of plain triples maps is exactly what the generation rules read off the document (end-to-end theorem of C01) *)
From Morph Require Import Model.Mapping Model.Spec Model.Fragment Proofs.TermP Proofs.RowSpecP Proofs.DocEngineP Proofs.DocUnionP.
Theorem any_partitioning_gives_the_generation_rules_document : forall cfg fe scfg raw (lab : rule -> label) d0 rules l,
  cfg_agree cfg scfg -> c_nquads cfg = s_nquads scfg -> s_na scfg = c_na cfg ->
  forallb plain_tm d0 = true -> normalise d0 = Ok rules -> (forall rl, In rl rules -> simple_rule rl) ->
  (forall rl rw n, In rl rules -> In rw (raw (r_src rl)) -> In n (rule_names rl) -> assoc n rw <> None) ->
  materialize_grouped cfg fe rules (delivered cfg raw) lab = Ok l ->
  forall x, In x l <-> In x (spec_lines scfg fe d0 (spec_tables raw)).
Proof. exact grouped_document_is_spec_document. Qed.
Print Assumptions any_partitioning_gives_the_generation_rules_document.

(* the same for documents WITH REFERENCING OBJECT MAPS (join conditions and R2RML's no-condition form), WITH QUOTED SUBJECT MAPS and WITH QUOTED
   OBJECT MAPS: a group is materialised against the whole rule table (parent and quoted rules are looked up there, `rule_triples cfg fe rules`),
   so any labelling of the rules gives the document of the generation rules (end-to-end theorems of C01 / C07 / C13 composed with GroupingP) *)
From Morph Require Import Proofs.RowwiseP Proofs.JoinRuleP Proofs.DocJoinP Proofs.DocQuotedP Proofs.DocQuotedObjP Proofs.DocGroupedP.
Theorem any_partitioning_with_joins_gives_the_generation_rules_document : forall cfg fe scfg raw (lab : rule -> label),
  cfg_agree cfg scfg -> c_nquads cfg = s_nquads scfg -> s_na scfg = c_na cfg ->
  forall d0 rules l,
    forallb jplain_tm d0 = true -> nodupb (map t_id d0) = true -> parents_ok d0 = true -> normalise d0 = Ok rules -> nodupb (map r_id rules) = true ->
    (forall rl, In rl rules -> simple_rule rl \/ join_rule_ok rules rl) ->
    (forall rl rw n, In rl rules -> In rw (raw (r_src rl)) -> In n (rule_names rl ++ child_names rl ++ joins_child (r_ojoin rl)) -> assoc n rw <> None) ->
    (forall src rw k, In rw (raw src) -> assoc (parent_prefix ++ k) rw = None) ->
    materialize_grouped cfg fe rules (delivered cfg raw) lab = Ok l ->
    forall x, In x l <-> In x (spec_lines scfg fe d0 (spec_tables raw)).
Proof. exact grouped_document_is_spec_document_joins. Qed.
Print Assumptions any_partitioning_with_joins_gives_the_generation_rules_document.
Theorem any_partitioning_with_quoted_subjects_gives_the_generation_rules_document : forall cfg fe scfg raw (lab : rule -> label),
  cfg_agree cfg scfg -> c_nquads cfg = s_nquads scfg -> s_na scfg = c_na cfg ->
  forall d0 rules l,
    quoted_doc d0 = true -> normalise d0 = Ok rules -> nodupb (map r_id rules) = true ->
    (forall rl, In rl rules -> simple_rule rl \/ quoting_rule_ok rules rl) ->
    (forall rl rw n, In rl rules -> In rw (raw (r_src rl)) -> In n (rule_ref_set fe rules rl) -> assoc n rw <> None) ->
    materialize_grouped cfg fe rules (delivered cfg raw) lab = Ok l ->
    forall x, In x l <-> In x (spec_lines scfg fe d0 (spec_tables raw)).
Proof. exact grouped_document_is_spec_document_quoted. Qed.
Print Assumptions any_partitioning_with_quoted_subjects_gives_the_generation_rules_document.
Theorem any_partitioning_with_quoted_objects_gives_the_generation_rules_document : forall cfg fe scfg raw (lab : rule -> label),
  cfg_agree cfg scfg -> c_nquads cfg = s_nquads scfg -> s_na scfg = c_na cfg ->
  forall d0 rules l,
    qobj_doc d0 = true -> normalise d0 = Ok rules -> nodupb (map r_id rules) = true ->
    (forall rl, In rl rules -> simple_rule rl \/ qobj_rule_ok rules rl) ->
    (forall rl rw n, In rl rules -> In rw (raw (r_src rl)) -> In n (rule_ref_set fe rules rl) -> assoc n rw <> None) ->
    materialize_grouped cfg fe rules (delivered cfg raw) lab = Ok l ->
    forall x, In x l <-> In x (spec_lines scfg fe d0 (spec_tables raw)).
Proof. exact grouped_document_is_spec_document_qobj. Qed.
Print Assumptions any_partitioning_with_quoted_objects_gives_the_generation_rules_document.
