(* C03 — mapping groups are pairwise disjoint.  Statements only (being extended). *)
From Morph Require Import Base.UStr.
