(* C03 — mapping groups are pairwise disjoint.  Statements only.
   Chain: (i) the scans of the partitioner (as modelled in Model/Partition.v) separate only keys that are prefix-incomparable
   (head-prefix scan) or different (equality scan) -- for ALL rule tables; (ii) term maps whose constant parts are
   incomparable / different / of different kinds prescribe different terms for ALL rows (Model/Spec.v, escape-free
   templates); (iii) distinct well-formed statements print to distinct lines (C05 print_injective).  The implementation's
   own partition is checked against the criterion `separable` on every run (harness/props/c03.py). *)
From Coq Require Import Sorted.
From Morph Require Import Base.UStr Model.Terms Model.Data Model.Engine Model.Mapping Model.Partition Model.Spec
  Proofs.UStrP Proofs.ScanP Proofs.SeparableP Proofs.EscP.
Local Open Scope N_scope.

(* (i) head-prefix scan over a sorted list: two non-blank-node entries in different groups have prefix-incomparable keys *)
Theorem prefix_scan_separates_incomparable : forall l, StronglySorted le (map snd l) ->
  forall i j ki kj li lj, (i < j)%nat ->
    nth_error (unflagged l) i = Some ki -> nth_error (unflagged l) j = Some kj ->
    nth_error (unflagged_labels l (scan_prefix 0 None l)) i = Some li ->
    nth_error (unflagged_labels l (scan_prefix 0 None l)) j = Some lj ->
    li <> lj -> incomp ki kj.
Proof. exact prefix_scan_safe. Qed.
Print Assumptions prefix_scan_separates_incomparable.
(* blank nodes go to group 0, everything else to a group >= 1 *)
Theorem blank_nodes_apart : forall l g h i fk lab, nth_error l i = Some fk -> nth_error (scan_prefix g h l) i = Some lab ->
  if fst fk then lab = O else (g <= lab)%nat /\ (h = None -> g < lab)%nat.
Proof. exact scan_prefix_flagged. Qed.
Print Assumptions blank_nodes_apart.
(* equality scan (all maps constant): equal keys are never separated *)
Theorem equality_scan_separates_different : forall l g h i j ki kj li lj, StronglySorted le l -> (i < j)%nat ->
  nth_error l i = Some ki -> nth_error l j = Some kj ->
  nth_error (scan_eq g h l) i = Some li -> nth_error (scan_eq g h l) j = Some lj -> ki = kj -> li = lj.
Proof. exact scan_eq_same. Qed.
Print Assumptions equality_scan_separates_different.
(* the list the model sorts is sorted (insertion sort by Python string order) *)
Theorem partitioner_input_sorted : forall (A : Type) (key : A -> ustr) (flag : A -> bool) ks,
  StronglySorted le (map snd (map (fun k => (flag k, key k)) (isort (kle key) ks))).
Proof. exact @scan_input_sorted. Qed.
Print Assumptions partitioner_input_sorted.

(* (ii) for ALL rows of ALL data: incomparable constant parts give different terms *)
Theorem incomparable_invariants_never_collide : forall cfg k1 v1 k2 v2 tt dt1 dt2 r1 r2 x1 x2,
  (k1 = KConst \/ k1 = KTempl) -> (k2 = KConst \/ k2 = KTempl) -> escape_free v1 = true -> escape_free v2 = true ->
  tt <> TLit -> incomparable (inv_of k1 v1) (inv_of k2 v2) = true ->
  spec_lex cfg k1 v1 tt dt1 r1 = Some x1 -> spec_lex cfg k2 v2 tt dt2 r2 = Some x2 ->
  render tt x1 <> render tt x2.
Proof. exact incomparable_terms_differ. Qed.
Print Assumptions incomparable_invariants_never_collide.
Theorem different_constants_never_collide : forall tt v1 v2, v1 <> v2 -> tt <> TLit -> render tt v1 <> render tt v2.
Proof. exact different_constants_differ. Qed.
Print Assumptions different_constants_never_collide.
Theorem blank_node_never_equals_iri_or_literal : forall tt x1 x2, tt = TIri \/ tt = TLit -> render TBnode x1 <> render tt x2.
Proof. exact bnode_vs_other. Qed.
Print Assumptions blank_node_never_equals_iri_or_literal.
Theorem literal_types_never_collide : forall a b s1 s2, s1 <> s2 -> render TLit a ++ s1 <> render TLit b ++ s2.
Proof. exact literal_suffix_differ. Qed.
Print Assumptions literal_types_never_collide.
