(* C10 — the same table gives the same statements whatever the source format.  Statements only.
   The readers are third-party code: Model/Data.v `arrive` states what each one hands over (measured by the correspondence
   on every run); the theorems say that, given that, what reaches term construction is the same in every format.
   Partial: tables of strings and NULLs; CSV / TSV / Excel (text readers), XML, tabular views, columnar files, SQL queries.
   JSON and SQL tables (which filter NULLs before pandas sees them) and in-memory sources are correspondence only. *)
From Coq Require Import String.
From Morph Require Import Base.UStr Model.Terms Model.Data Proofs.DataP Proofs.ReadersP.
Local Open Scope N_scope.

(* for every reader that hands over cells one by one: exactly the rows whose referenced cells are all strings that are
   not null tokens are delivered, and every referenced column reads exactly the string of the table -- no character
   added, dropped or altered, NULL in one is NULL in all *)
Theorem format_independent_reading_partial : forall k t refs na f,
  string_kind k = true -> string_table t -> refs <> [] -> In [] na -> arrive k refs t = Ok f ->
  forall x, In x (map (reading refs) (preprocess na refs f)) <->
            exists r, In r (t_rows t) /\ good (t_cols t) refs na r /\ x = canon_reading (t_cols t) refs r.
Proof. exact format_independent_reading. Qed.
Print Assumptions format_independent_reading_partial.

Theorem two_formats_same_frame_partial : forall k1 k2 t refs na f1 f2,
  string_kind k1 = true -> string_kind k2 = true -> string_table t -> refs <> [] -> In [] na ->
  arrive k1 refs t = Ok f1 -> arrive k2 refs t = Ok f2 ->
  forall x, In x (map (reading refs) (preprocess na refs f1)) <-> In x (map (reading refs) (preprocess na refs f2)).
Proof. exact two_formats_same_reading. Qed.
Print Assumptions two_formats_same_frame_partial.

(* non-vacuity, and the values fixtures avoid: blanks at the edges, quotes, digits with leading zeros, words like None *)
Definition ex_table : table :=
  {| t_cols := [u "id"; u "v"];
     t_rows := [[VStr (u "01"); VStr (u " a ""b"" ")]; [VStr (u "2"); VNull]; [VStr (u "3"); VStr (u "None")]; [VStr (u "4"); VStr []]] |}.
Example ex_table_reading :
  string_table ex_table /\
  forall k, string_kind k = true ->
    match arrive k [u "id"; u "v"] ex_table with
    | Ok f => map (reading [u "id"; u "v"]) (preprocess [[]] [u "id"; u "v"] f)
              = [[Some (u "01"); Some (u " a ""b"" ")]; [Some (u "3"); Some (u "None")]]
    | Err _ => False
    end.
Proof.
  split.
  - split; intros r Hr; vm_compute in Hr; repeat (destruct Hr as [<-|Hr]; [reflexivity|]); contradiction.
  - intros k Hk. destruct k; try discriminate; vm_compute; reflexivity.
Qed.
Print Assumptions ex_table_reading.

(* AT DOCUMENT LEVEL: whatever the source formats, two deliveries that hand over the same rows for every source (in any order, with or
   without repeated rows) give the same statements for a document of plain triples maps -- the engine's result depends on the delivered
   row SETS only (through the end-to-end theorem of C01); which rows a reader delivers for a given file is the part measured per format *)
From Morph Require Import Model.Engine Model.Mapping Model.Spec Model.Fragment Proofs.TermP Proofs.RowSpecP Proofs.DocEngineP Proofs.DocRowsP.
Theorem same_delivered_rows_same_statements : forall cfg fe scfg raw1 raw2 d rules l1 l2,
  cfg_agree cfg scfg -> c_nquads cfg = s_nquads scfg -> s_na scfg = c_na cfg ->
  forallb plain_tm d = true -> normalise d = Ok rules -> (forall rl, In rl rules -> simple_rule rl) ->
  (forall raw rl rw n, In raw [raw1; raw2] -> In rl rules -> In rw (raw (r_src rl)) -> In n (rule_names rl) -> assoc n rw <> None) ->
  (forall src rw, In rw (raw1 src) <-> In rw (raw2 src)) ->
  materialize_rules cfg fe rules (delivered cfg raw1) = Ok l1 -> materialize_rules cfg fe rules (delivered cfg raw2) = Ok l2 ->
  forall x, In x l1 <-> In x l2.
Proof. exact engine_plain_document_depends_on_delivered_row_sets. Qed.
Print Assumptions same_delivered_rows_same_statements.

(* the same for documents WITH REFERENCING OBJECT MAPS and WITH QUOTED SUBJECT / OBJECT MAPS (end-to-end theorems of C01 / C13 and
   `Proofs/DocRowSetsP.v`: the generation rules read every table as a set of rows, for every document) *)
From Morph Require Import Proofs.RowwiseP Proofs.JoinRuleP Proofs.DocJoinP Proofs.DocQuotedP Proofs.DocQuotedObjP Proofs.DocRowSetsP.
Theorem same_delivered_rows_same_statements_with_joins : forall cfg fe scfg raw1 raw2 d0 rules l1 l2,
  cfg_agree cfg scfg -> c_nquads cfg = s_nquads scfg -> s_na scfg = c_na cfg ->
  forallb jplain_tm d0 = true -> nodupb (map t_id d0) = true -> parents_ok d0 = true -> normalise d0 = Ok rules -> nodupb (map r_id rules) = true ->
  (forall rl, In rl rules -> simple_rule rl \/ join_rule_ok rules rl) ->
  (forall raw rl rw n, In raw [raw1; raw2] -> In rl rules -> In rw (raw (r_src rl)) -> In n (rule_names rl ++ child_names rl ++ joins_child (r_ojoin rl)) -> assoc n rw <> None) ->
  (forall raw src rw k, In raw [raw1; raw2] -> In rw (raw src) -> assoc (parent_prefix ++ k) rw = None) ->
  (forall src rw, In rw (raw1 src) <-> In rw (raw2 src)) ->
  materialize_rules cfg fe rules (delivered cfg raw1) = Ok l1 -> materialize_rules cfg fe rules (delivered cfg raw2) = Ok l2 ->
  forall x, In x l1 <-> In x l2.
Proof. exact engine_join_document_depends_on_delivered_row_sets. Qed.
Print Assumptions same_delivered_rows_same_statements_with_joins.
Theorem same_delivered_rows_same_statements_with_quoted_subjects : forall cfg fe scfg raw1 raw2 d0 rules l1 l2,
  cfg_agree cfg scfg -> c_nquads cfg = s_nquads scfg -> s_na scfg = c_na cfg ->
  quoted_doc d0 = true -> normalise d0 = Ok rules -> nodupb (map r_id rules) = true ->
  (forall rl, In rl rules -> simple_rule rl \/ quoting_rule_ok rules rl) ->
  (forall raw rl rw n, In raw [raw1; raw2] -> In rl rules -> In rw (raw (r_src rl)) -> In n (rule_ref_set fe rules rl) -> assoc n rw <> None) ->
  (forall src rw, In rw (raw1 src) <-> In rw (raw2 src)) ->
  materialize_rules cfg fe rules (delivered cfg raw1) = Ok l1 -> materialize_rules cfg fe rules (delivered cfg raw2) = Ok l2 ->
  forall x, In x l1 <-> In x l2.
Proof. exact engine_quoted_document_depends_on_delivered_row_sets. Qed.
Print Assumptions same_delivered_rows_same_statements_with_quoted_subjects.
Theorem same_delivered_rows_same_statements_with_quoted_objects : forall cfg fe scfg raw1 raw2 d0 rules l1 l2,
  cfg_agree cfg scfg -> c_nquads cfg = s_nquads scfg -> s_na scfg = c_na cfg ->
  qobj_doc d0 = true -> normalise d0 = Ok rules -> nodupb (map r_id rules) = true ->
  (forall rl, In rl rules -> simple_rule rl \/ qobj_rule_ok rules rl) ->
  (forall raw rl rw n, In raw [raw1; raw2] -> In rl rules -> In rw (raw (r_src rl)) -> In n (rule_ref_set fe rules rl) -> assoc n rw <> None) ->
  (forall src rw, In rw (raw1 src) <-> In rw (raw2 src)) ->
  materialize_rules cfg fe rules (delivered cfg raw1) = Ok l1 -> materialize_rules cfg fe rules (delivered cfg raw2) = Ok l2 ->
  forall x, In x l1 <-> In x l2.
Proof. exact engine_qobj_document_depends_on_delivered_row_sets. Qed.
Print Assumptions same_delivered_rows_same_statements_with_quoted_objects.
