(* C01 — output equals the R2RML/RML generation rules.  Statements only. *)
From Coq Require Import String.
From Morph Require Import Base.UStr Gen.Tables Model.Terms Model.Data Model.Engine Model.Mapping Model.Spec
     Proofs.DataP Proofs.SplitP Proofs.TemplateP Proofs.TermP Proofs.RowwiseP Proofs.RowSpecP Proofs.RuleSpecP Proofs.DocSpecP Proofs.DocEngineP Proofs.QuotedP.
Local Open Scope N_scope.

(* a row of the source reaches term construction iff none of the columns the rule references holds a null (NULL or a
   token of na_values) -- for every frame, every reference set, every na_values list *)
Theorem null_filter_exact :
  forall na refs f r, In r (kept na refs f) <->
    In r (map str_row f) /\ ~ (exists k v, In k refs /\ rget k r = Some v /\ In v na).
Proof.
  intros. rewrite kept_iff. split; intros [H1 H2]; split; auto.
  - intro H. apply row_has_null_iff in H. congruence.
  - destruct (row_has_null na refs r) eqn:E; auto. exfalso. apply H2. now apply row_has_null_iff.
Qed.
Print Assumptions null_filter_exact.

(* str.join inverts str.split for every separator and text (the template loop and str.replace rest on it) *)
Theorem join_inverts_split : forall sep s, sep <> [] -> join sep (split_on sep s) = s.
Proof. exact join_split. Qed.
Print Assumptions join_inverts_split.

(* the two template readers agree: the engine's regular expression finds exactly the references the R2RML parser
   finds, for every well-formed template (any number of references, any literal text) *)
Theorem template_readers_agree : forall segs, wf segs = true ->
  parse_template (flat segs) = segs /\ refs_in_template (flat segs) = names segs /\ unescape_braces (flat segs) = flat segs.
Proof. intros segs H. repeat split; [now apply parse_flat|now apply refs_in_template_flat|now apply unescape_flat]. Qed.
Print Assumptions template_readers_agree.

(* _materialize_template (split at the first {ref}, append the transformed value to the position column, continue on the
   rest) computes the substitution of the transformed values into the parsed template, touches no data column, and
   fails exactly when a value is missing or cannot be transformed -- every template, row, configuration, term type *)
Theorem template_loop_is_substitution : forall cfg k tt dt alias pos v r,
  ueqb pos col_refres = false -> term_wf k v = true -> no_shadow alias pos (names (segs_of k v)) ->
  match mat_template cfg v k pos alias tt dt r with
  | Ok r' => exists w, esubst (val_of cfg k tt dt alias r) (segs_of k v) = Ok w /\ rget pos r' = Some (delimit tt w) /\
                       (forall c, ueqb c pos = false -> ueqb c col_refres = false -> rget c r' = rget c r)
  | Err e => esubst (val_of cfg k tt dt alias r) (segs_of k v) = Err e
  end.
Proof. intros cfg k tt dt alias pos v r H. now apply mat_template_spec. Qed.
Print Assumptions template_loop_is_substitution.

(* the term the engine builds for a constant, a reference or a template is the term of the generation rules: IRI-safe
   encoding of every value of an IRI template, canonical lexical form and ECHAR escaping for literals, the delimiters
   of the term type; where the rules give no term the engine gives none *)
Theorem engine_term_is_rule_term : forall cfg scfg k v tt dt alias pos r sr,
  ueqb pos col_refres = false -> is_plain k = true -> term_wf k v = true ->
  (tt = TLit -> lits_neutral (segs_of k v) = true) ->
  cfg_agree cfg scfg -> no_shadow alias pos (names (segs_of k v)) -> row_agree scfg sr alias r (names (segs_of k v)) ->
  match mat_template cfg v k pos alias tt dt r with
  | Ok r' => exists lex, spec_lex scfg k v tt dt sr = Some lex /\ rget pos r' = Some (render tt lex) /\
                         (forall c, ueqb c pos = false -> ueqb c col_refres = false -> rget c r' = rget c r)
  | Err _ => spec_lex scfg k v tt dt sr = None
  end.
Proof. exact engine_term_is_spec_term. Qed.
Print Assumptions engine_term_is_rule_term.

(* one row through one rule: subject, predicate, object, language tag / datatype, the triple string and the graph term
   come out as the single statement the generation rules give for that row *)
Theorem engine_row_is_rule_row : forall cfg fe scfg, cfg_agree cfg scfg -> c_nquads cfg = s_nquads scfg ->
  forall rl r sr, rule_ok (c_nquads cfg) rl -> row_agree scfg sr [] r (rule_names rl) ->
  match row_lines cfg fe rl r with
  | Ok ls => exists line, spec_rule_line scfg rl sr = Some line /\ ls = [line]
  | Err _ => spec_rule_line scfg rl sr = None
  end.
Proof. exact row_is_spec_row. Qed.
Print Assumptions engine_row_is_rule_row.

(* a whole rule: over the frame _preprocess_data delivers, the engine's statements are exactly the statements of the
   generation rules for the rows of that frame -- every rule table, every frame of any size *)
Theorem engine_rule_is_rule_semantics : forall cfg fe rules get_data scfg, cfg_agree cfg scfg -> c_nquads cfg = s_nquads scfg ->
  forall rl na refs f,
    s_na scfg = na -> plain_rule rl = true -> rule_ok (c_nquads cfg) rl -> incl (rule_names rl) refs ->
    get_data (r_src rl) (rule_ref_set fe rules rl) = Ok (preprocess na refs f) ->
    (forall ls, rule_triples cfg fe rules get_data rl = Ok ls ->
       forall x, In x ls <-> exists r, In r (preprocess na refs f) /\ spec_rule_line scfg rl (srow_of r) = Some x) /\
    ((forall r, In r (preprocess na refs f) -> spec_rule_line scfg rl (srow_of r) <> None) ->
       exists ls, rule_triples cfg fe rules get_data rl = Ok ls).
Proof. exact plain_rule_is_spec. Qed.
Print Assumptions engine_rule_is_rule_semantics.

(* the generation rules read on the surface document (triples maps, predicate-object maps, rr:class, graph maps on the
   subject map, language / datatype maps, R2RML 7.4 term types) and read rule by rule on the table the normaliser
   produces give the same statements: every document of constant / reference / template maps, every table, both output
   formats (with N-TRIPLES a statement exists iff it is placed in at least one graph) *)
Theorem document_rules_are_rule_table_rules : forall scfg fe tables d0 rules,
  forallb plain_tm d0 = true -> normalise d0 = Ok rules ->
  forall x, In x (spec_lines scfg fe d0 tables) <->
            exists rl sr, In rl rules /\ r_asserted rl = true /\ In sr (tables (r_src rl)) /\ doc_rule_line scfg rl sr = Some x.
Proof. exact doc_spec_is_rule_spec. Qed.
Print Assumptions document_rules_are_rule_table_rules.

(* END TO END for documents of constant / reference / template maps, N-QUADS and N-TRIPLES: what the engine materialises
   from the normalised rule table over the delivered rows (`delivered`: _preprocess_data of the rows a reader hands over,
   which hold every referenced column) is exactly what the generation rules read off the surface document over the same
   rows (`spec_tables`: NULL cells are null) -- every such document, every table, every configuration.  The per-rule
   hypothesis `simple_rule` (well-formed templates, no reference named like a working column, literal text that needs no
   escaping, not all-constant) is decidable (`simple_ruleb`) and is the complement of the recorded findings. *)
Theorem engine_document_is_generation_rules_document : forall cfg fe scfg raw,
  cfg_agree cfg scfg -> c_nquads cfg = s_nquads scfg -> s_na scfg = c_na cfg ->
  forall d0 rules l, forallb plain_tm d0 = true -> normalise d0 = Ok rules -> (forall rl, In rl rules -> simple_rule rl) ->
    (forall rl rw n, In rl rules -> In rw (raw (r_src rl)) -> In n (rule_names rl) -> assoc n rw <> None) ->
    materialize_rules cfg fe rules (delivered cfg raw) = Ok l ->
    forall x, In x l <-> In x (spec_lines scfg fe d0 (spec_tables raw)).
Proof. exact engine_document_is_spec_document. Qed.
Print Assumptions engine_document_is_generation_rules_document.
Theorem simple_rule_is_decidable : forall rl, simple_ruleb rl = true -> simple_rule rl.
Proof. exact simple_ruleb_ok. Qed.
Print Assumptions simple_rule_is_decidable.

(* non-vacuity of the end-to-end statement: a document with a class, a graph map on the subject map and a language-tagged
   reference; rows with a NULL and with an empty string in the referenced column; both output formats *)
Definition tmx (k : mkind) (v : string) : tmap := mk_tmap k (u v) CkIri None.
Definition dx : document :=
  [{| t_id := u "#TM"; t_src := u "S"; t_nonasserted := false; t_subj := tmx KTempl "http://e/{id}"; t_sjoins := [];
      t_classes := [u "http://e/C"]; t_sgraphs := [tmx KTempl "http://e/g/{id}"];
      t_poms := [{| p_preds := [tmx KConst "http://e/name"];
                    p_objs := [{| o_tm := tmx KRef "name"; o_lang := Some (tmx KConst "en"); o_dt := None; o_joins := [] |}]; p_graphs := [] |}] |}].
Definition rawx (src : ustr) : list rawrow :=
  [[(u "id", CStr (u "1")); (u "name", CStr (u "Ann"))]; [(u "id", CStr (u "2")); (u "name", CNone)]; [(u "id", CStr (u "3")); (u "name", CStr [])]].
Definition cfgx (nq : bool) : ecfg := {| c_nquads := nq; c_printable := true; c_safe := []; c_na := [[]] |}.
Definition scfgx (nq : bool) : scfg := {| s_nquads := nq; s_printable := true; s_safe := []; s_na := [[]] |}.
Definition fex : fenv := {| fn_params := fun _ => None; fn_apply := fun _ _ => FRaise; fn_table := [] |}.
Example end_to_end_example : forall nq,
  theorem_applies nq dx = true /\
  match normalise dx with
  | Ok rules => match materialize_rules (cfgx nq) fex rules (delivered (cfgx nq) rawx) with
                | Ok l => length l = 4%nat /\ forallb (fun x => mem x (spec_lines (scfgx nq) fex dx (spec_tables rawx))) l = true
                          /\ length (spec_lines (scfgx nq) fex dx (spec_tables rawx)) = 4%nat
                | Err _ => False
                end
  | Err _ => False
  end.
Proof. intros [|]; vm_compute; repeat split; reflexivity. Qed.
Print Assumptions end_to_end_example.

(* the hypotheses are satisfiable: a template rule with a language-tagged literal object and a graph template *)
Definition ex_rule : rule :=
  {| r_id := u "#TM1"; r_tm := u "#TM1"; r_src := u "S"; r_asserted := true;
     r_sk := KTempl; r_sv := u "http://ex.org/r/{id}"; r_stt := TIri;
     r_pk := KConst; r_pv := u "http://ex.org/p"; r_ok := KTempl; r_ov := u "{first} {last}"; r_ott := TLit;
     r_ld := LDLang; r_ldk := KConst; r_ldv := u "en"; r_gk := KTempl; r_gv := u "http://ex.org/g/{id}";
     r_sjoin := []; r_ojoin := [] |}.
Definition ex_cfg : ecfg := {| c_nquads := true; c_printable := true; c_safe := []; c_na := [] |}.
Definition ex_scfg : scfg := {| s_nquads := true; s_printable := true; s_safe := []; s_na := [] |}.
Definition ex_row : row := [(u "id", u "a b"); (u "first", u "Ann"); (u "last", u "O""Hara")].
Example rule_ok_example : rule_ok true ex_rule /\ plain_rule ex_rule = true /\ row_agree ex_scfg (srow_of ex_row) [] ex_row (rule_names ex_rule).
Proof.
  split; [|split; [reflexivity|]].
  - unfold rule_ok, pos_ok, names_free. cbn -[mem reserved]. repeat split; try reflexivity; try discriminate;
      try (intros n Hn; repeat (destruct Hn as [<-|Hn]; [reflexivity|]); contradiction).
    intros _. left. repeat split; try reflexivity; intros n Hn; repeat (destruct Hn as [<-|Hn]; [reflexivity|]); contradiction.
  - intros n Hn. vm_compute in Hn. repeat (destruct Hn as [<-|Hn]; [reflexivity|]). contradiction.
Qed.
Print Assumptions rule_ok_example.
Example rule_line_example :
  spec_rule_line ex_scfg ex_rule (srow_of ex_row)
  = Some (u "<http://ex.org/r/a%20b> <http://ex.org/p> ""Ann O\""Hara""@en <http://ex.org/g/a%20b>").
Proof. vm_compute. reflexivity. Qed.
Print Assumptions rule_line_example.

(* END TO END, REFERENCING OBJECT MAPS INCLUDED (C01 + C07): documents whose object maps are constants / references /
   templates or referencing object maps with join conditions (each predicate-object map of one kind).  The statements the
   engine materialises are exactly those of the generation rules: a referencing object map contributes, for every pair
   (child row, parent row) of the two delivered tables that agree on all join conditions (NULL never matches), subject,
   predicate and graph from the child row and the parent's subject term from the parent row -- for every document, every
   pair of tables, both output formats.  Hypotheses: the decidable fragment predicates of Model/Fragment.v (triples-map
   identifiers and rule identifiers are unique, every referencing object map names a triples map of the document and is
   not one of those the parser rewrites away), every referenced column is delivered, and no data column is named like a
   parent_ column of the merge. *)
From Morph Require Import Model.Fragment Proofs.JoinRuleP Proofs.DocJoinP.
Theorem document_rules_with_joins_are_rule_table_rules : forall scfg fe tables d0 rules,
  forallb jplain_tm d0 = true -> nodupb (map t_id d0) = true -> parents_ok d0 = true -> normalise d0 = Ok rules -> nodupb (map r_id rules) = true ->
  forall x, In x (spec_lines scfg fe d0 tables) <->
    (exists rl sr, In rl rules /\ r_asserted rl = true /\ r_ok rl <> KParent /\ In sr (tables (r_src rl)) /\ doc_rule_line scfg rl sr = Some x) \/
    (exists rl q csr psr, In rl rules /\ r_asserted rl = true /\ r_ok rl = KParent /\ find_rule rules (r_ov rl) = Some q /\
        In csr (tables (r_src rl)) /\ In psr (tables (r_src q)) /\ conds_hold scfg csr psr (r_ojoin rl) = true /\
        doc_join_line scfg rl (r_sk q) (r_sv q) csr psr = Some x).
Proof. exact doc_spec_is_rule_spec2. Qed.
Print Assumptions document_rules_with_joins_are_rule_table_rules.
Theorem engine_document_with_joins_is_generation_rules_document : forall cfg fe scfg raw,
  cfg_agree cfg scfg -> c_nquads cfg = s_nquads scfg -> s_na scfg = c_na cfg ->
  forall d0 rules l,
    forallb jplain_tm d0 = true -> nodupb (map t_id d0) = true -> parents_ok d0 = true -> normalise d0 = Ok rules -> nodupb (map r_id rules) = true ->
    (forall rl, In rl rules -> simple_rule rl \/ join_rule_ok rules rl) ->
    (forall rl rw n, In rl rules -> In rw (raw (r_src rl)) -> In n (rule_names rl ++ child_names rl ++ joins_child (r_ojoin rl)) -> assoc n rw <> None) ->
    (forall src rw k, In rw (raw src) -> assoc (parent_prefix ++ k) rw = None) ->
    materialize_rules cfg fe rules (delivered cfg raw) = Ok l ->
    forall x, In x l <-> In x (spec_lines scfg fe d0 (spec_tables raw)).
Proof. exact engine_document_is_spec_document_joins. Qed.
Print Assumptions engine_document_with_joins_is_generation_rules_document.
Theorem joins_fragment_is_decidable : forall d0, theorem_applies_joins d0 = true ->
  forallb jplain_tm d0 = true /\ nodupb (map t_id d0) = true /\ parents_ok d0 = true /\
  exists rules, normalise d0 = Ok rules /\ nodupb (map r_id rules) = true /\ forall rl, In rl rules -> simple_rule rl \/ join_rule_ok rules rl.
Proof. exact theorem_applies_joins_ok. Qed.
Print Assumptions joins_fragment_is_decidable.

(* non-vacuity: employees and their departments in two tables; a duplicated key on the parent side, a NULL key and an
   unmatched key on the child side; a referencing object map without join condition over the employees' own table; a graph map on the child's subject map; both output formats *)
Definition dj : document :=
  [{| t_id := u "#Emp"; t_src := u "E"; t_nonasserted := false; t_subj := tmx KTempl "http://e/emp/{id}"; t_sjoins := [];
      t_classes := [u "http://e/Emp"]; t_sgraphs := [tmx KTempl "http://e/g/{id}"];
      t_poms := [{| p_preds := [tmx KConst "http://e/worksIn"];
                    p_objs := [{| o_tm := mk_tmap KParent (u "#Dept") CkIri None; o_lang := None; o_dt := None; o_joins := [(u "dept", u "code")] |}]; p_graphs := [] |};
                 {| p_preds := [tmx KConst "http://e/name"];
                    p_objs := [{| o_tm := tmx KRef "name"; o_lang := None; o_dt := None; o_joins := [] |}]; p_graphs := [] |};
                 (* R2RML's plain referencing object map: same logical source, no join condition *)
                 {| p_preds := [tmx KConst "http://e/badge"];
                    p_objs := [{| o_tm := mk_tmap KParent (u "#Badge") CkIri None; o_lang := None; o_dt := None; o_joins := [] |}]; p_graphs := [] |}] |};
   {| t_id := u "#Badge"; t_src := u "E"; t_nonasserted := false; t_subj := tmx KTempl "http://e/badge/{id}"; t_sjoins := [];
      t_classes := [u "http://e/Badge"]; t_sgraphs := []; t_poms := [] |};
   {| t_id := u "#Dept"; t_src := u "D"; t_nonasserted := false; t_subj := tmx KTempl "http://e/dept/{code}/{site}"; t_sjoins := [];
      t_classes := []; t_sgraphs := [];
      t_poms := [{| p_preds := [tmx KConst "http://e/site"];
                    p_objs := [{| o_tm := tmx KRef "site"; o_lang := None; o_dt := None; o_joins := [] |}]; p_graphs := [] |}] |}].
Definition rawj (src : ustr) : list rawrow :=
  if ueqb src (u "E")
  then [[(u "id", CStr (u "1")); (u "name", CStr (u "Ann")); (u "dept", CStr (u "a"))];
        [(u "id", CStr (u "2")); (u "name", CStr (u "Bob")); (u "dept", CNone)];
        [(u "id", CStr (u "3")); (u "name", CStr (u "Cy")); (u "dept", CStr (u "zz"))]]
  else [[(u "code", CStr (u "a")); (u "site", CStr (u "x"))]; [(u "code", CStr (u "a")); (u "site", CStr (u "y"))]; [(u "code", CStr (u "b")); (u "site", CStr (u "x"))]].
Example end_to_end_join_example : forall nq,
  theorem_applies_joins dj = true /\
  match normalise dj with
  | Ok rules => match materialize_rules (cfgx nq) fex rules (delivered (cfgx nq) rawj) with
                | Ok l => length l = 17%nat /\ forallb (fun x => mem x (spec_lines (scfgx nq) fex dj (spec_tables rawj))) l = true
                          /\ length (spec_lines (scfgx nq) fex dj (spec_tables rawj)) = 17%nat
                          /\ mem (u "<http://e/emp/1> <http://e/worksIn> <http://e/dept/a/y>" ++ (if nq then u " <http://e/g/1>" else [])) l = true
                          /\ mem (u "<http://e/emp/2> <http://e/badge> <http://e/badge/2>" ++ (if nq then u " <http://e/g/2>" else [])) l = true
                | Err _ => False
                end
  | Err _ => False
  end.
Proof. intros [|]; vm_compute; repeat split; reflexivity. Qed.
Print Assumptions end_to_end_join_example.
