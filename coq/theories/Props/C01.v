(* C01 — output equals the R2RML/RML generation rules.  Statements only. *)
From Morph Require Import Base.UStr Model.Data Proofs.DataP.

(* a row of the source reaches term construction iff none of the columns the rule references holds a null (NULL or a
   token of na_values) -- for every frame, every reference set, every na_values list *)
Theorem null_filter_exact :
  forall na refs f r, In r (kept na refs f) <->
    In r (map str_row f) /\ ~ (exists k v, In k refs /\ rget k r = Some v /\ In v na).
Proof.
  intros. rewrite kept_iff. split; intros [H1 H2]; split; auto.
  - intro H. apply row_has_null_iff in H. congruence.
  - destruct (row_has_null na refs r) eqn:E; auto. exfalso. apply H2. now apply row_has_null_iff.
Qed.
Print Assumptions null_filter_exact.
