(* C04 — result independent of process count and scheduling.  Statements only. *)
From Coq Require Import Permutation.
From Morph Require Import Base.UStr Model.Terms Model.Data Model.Engine Model.Partition Model.Grouping Model.Writer
  Proofs.GroupingP Proofs.WriterP.

(* library: the result is a union over groups, so it does not depend on how groups are assigned to workers nor on the
   order in which they finish (any labelling, any order: C02's theorem specialises) *)
Theorem union_schedule_invariant :
  forall cfg fe rules get_data (lab1 lab2 : rule -> label) l1 l2,
    materialize_grouped cfg fe rules get_data lab1 = Ok l1 -> materialize_grouped cfg fe rules get_data lab2 = Ok l2 ->
    forall x, In x l1 <-> In x l2.
Proof.
  intros cfg fe rules gd lab1 lab2 l1 l2 H1 H2 x.
  destruct (materialize_rules cfg fe rules gd) as [l|e] eqn:E.
  - rewrite (grouped_same_statements _ _ _ _ _ _ _ H1 E x). symmetry. exact (grouped_same_statements _ _ _ _ _ _ _ H2 E x).
  - exfalso. assert (H : exists e, materialize_grouped cfg fe rules gd lab1 = Err e) by (apply grouped_err_iff; eauto).
    destruct H as (e' & H). congruence.
Qed.
Print Assumptions union_schedule_invariant.

(* writer: under CPython's text/buffered write policy (Model/Writer.v), one f.write per statement line yields raw
   write(2) payloads that consist of whole lines only -- for every number of lines and every line length (below and far
   above the 8192-byte buffers) *)
Theorem payloads_whole_lines : forall lines, Forall (Whole lines) (raw_payloads lines).
Proof. exact payloads_whole_lines_proof. Qed.
Print Assumptions payloads_whole_lines.

(* interleaving: whatever order the atomic appends of several workers reach the shared file in, the file holds exactly
   the payloads of all workers, each once (no loss, no duplication) *)
Theorem interleaving_preserves_payloads : forall (ws : list (list (list N))) file, Merge ws file -> Permutation file (concat ws).
Proof. exact (@merge_permutation (list N)). Qed.
Print Assumptions interleaving_preserves_payloads.
(* output_dir: every mapping group appends to a file of its own; whatever order the groups complete in (any permutation of
   the appends), every file of the directory holds the same lines -- the statements are spread over the group files in the
   same way for every schedule and number of processes *)
Theorem group_files_independent_of_schedule : forall f r1 r2,
  clears r1 = clears r2 -> Permutation (writes r1) (writes r2) -> NoDup (map fst (writes r1)) ->
  forall p, fs_get (cli_run f r1) p = fs_get (cli_run f r2) p.
Proof. exact group_files_schedule_invariant. Qed.
Print Assumptions group_files_independent_of_schedule.
