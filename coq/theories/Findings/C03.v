(* Recorded finding of C03: N-TRIPLES lines do not show the graph, so rules that differ only in their graph map are
   `separable` under N-QUADS but not under N-TRIPLES; the partitioner separates them in both. *)
From Coq Require Import String.
From Morph Require Import Base.UStr Gen.Tables Model.Terms Model.Data Model.Engine Model.Partition.
Local Open Scope N_scope.
Definition g_rule (g : string) : rule :=
  {| r_id := u g; r_tm := u "TM0"; r_src := u "S0"; r_asserted := true;
     r_sk := KTempl; r_sv := u "http://ex.org/r/{id}"; r_stt := TIri; r_pk := KConst; r_pv := u "http://ex.org/p";
     r_ok := KRef; r_ov := u "name"; r_ott := TLit; r_ld := LDNone; r_ldk := KNone; r_ldv := []; r_gk := KConst;
     r_gv := u g; r_sjoin := []; r_ojoin := [] |}.
Definition two_graphs := [g_rule "http://ex.org/g/g1"; g_rule "http://ex.org/g/g2"].
Lemma ntriples_groups_refuted :
  match pa_labels two_graphs, sep_matrix false two_graphs, sep_matrix true two_graphs with
  | Some [(_, l1); (_, l2)], Some [_; (_, _, nt); _; _], Some [_; (_, _, nq); _; _] =>
      negb (label_eqb l1 l2) && negb nt && nq
  | _, _, _ => false
  end = true.
Proof. vm_compute. reflexivity. Qed.
