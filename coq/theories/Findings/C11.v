(* Recorded finding of C11: the readers choose one dtype per column, so the rendering of a value depends on the other rows
   (modelled in Data.coerce_rows): an integer next to a NULL is delivered as the float 10.0. *)
From Coq Require Import String.
From Morph Require Import Base.UStr Model.Terms Model.Data.
Local Open Scope Z_scope.
Lemma typed_rows_additive_refuted :
  map (map (fun kc => py_str (snd kc))) (coerce_rows [u "c"] [[VInt 10]; [VNull]]) = [[u "10.0"]; [u "nan"]]
  /\ map (map (fun kc => py_str (snd kc))) (coerce_rows [u "c"] [[VInt 10]]) = [[u "10"]].
Proof. split; vm_compute; reflexivity. Qed.
