From Morph Require Import Base.UStr.
