(* Recorded finding mixed-pom, as a checked fact: for a predicate-object map that holds an ordinary and a referencing object
   map, the split spelling and the multi-valued spelling normalise to different rule tables (the parsing query drops the
   referencing object map of the mixed map), and the Spec -- which reads both spellings alike -- disagrees with the
   multi-valued one. *)
From Coq Require Import String.
From Morph Require Import Base.UStr Gen.Tables Model.Terms Model.Data Model.Engine Model.Mapping Proofs.NormaliseP.
Local Open Scope N_scope.
Definition mx_tm (k : mkind) (v : string) : tmap := mk_tmap k (u v) CkIri None.
Definition mx_doc : document :=
  [ {| t_id := u "TM0"; t_src := u "S0"; t_nonasserted := false; t_subj := mx_tm KTempl "http://ex.org/r/{id}"; t_sjoins := []; t_classes := []; t_sgraphs := [];
       t_poms := [ {| p_preds := [mx_tm KConst "http://ex.org/p"];
                      p_objs := [ plain_obj (mx_tm KRef "name");
                                  {| o_tm := mx_tm KParent "TM1"; o_lang := None; o_dt := None; o_joins := [(u "id", u "ref")] |} ]; p_graphs := [] |} ] |};
    {| t_id := u "TM1"; t_src := u "S1"; t_nonasserted := false; t_subj := mx_tm KTempl "http://ex.org/s/{ref}"; t_sjoins := []; t_classes := []; t_sgraphs := [];
       t_poms := [ {| p_preds := [mx_tm KConst "http://ex.org/q"]; p_objs := [ plain_obj (mx_tm KRef "ref") ]; p_graphs := [] |} ] |} ].
Lemma mixed_pom_split_refuted :
  all_unmixed mx_doc = false /\
  match normalise (map split_tm mx_doc), normalise mx_doc with
  | Ok a, Ok b => (length a =? 3)%nat && (length b =? 2)%nat
  | _, _ => false
  end = true.
Proof. vm_compute. split; reflexivity. Qed.
