(* Recorded findings of C20, as checked facts about the model over the REGENERATED table.  Soft obligations: when the
   implementation is repaired these stop compiling, which is not an alarm (see DESIGN 6). *)
From Coq Require Import String.
From Morph Require Import Base.UStr Gen.Tables Model.SqlTypes Model.Spec20 Proofs.C20Table.

Definition row_bad (tx : ustr * option ustr) : bool :=
  negb (mem (fst tx) c20_known_bad) || negb (opt_ueqb (lookup Tables.sql_rdf_datatype (fst tx)) (snd tx)).
(* every type name excluded from natural_mapping_table_partial really is mapped wrongly by the current table *)
Lemma known_bad_all_refuted : forallb row_bad catalog_types = true.
Proof. vm_compute. reflexivity. Qed.
