(* Recorded finding of C02: a template without any reference materialises under NO partitioning and makes the
   partitioners raise. *)
From Coq Require Import String.
From Morph Require Import Base.UStr Model.Terms Model.Data Model.Engine Model.Partition.
Local Open Scope N_scope.
Definition noref_rule : rule :=
  {| r_id := u "0(,)"; r_tm := u "TM0"; r_src := u "S0"; r_asserted := true;
     r_sk := KTempl; r_sv := u "http://ex.org/fixed"; r_stt := TIri; r_pk := KConst; r_pv := u "http://ex.org/p";
     r_ok := KRef; r_ov := u "id"; r_ott := TLit; r_ld := LDNone; r_ldk := KNone; r_ldv := []; r_gk := KConst;
     r_gv := u "http://w3id.org/rml/defaultGraph"; r_sjoin := []; r_ojoin := [] |}.
Definition noref_data (key : ustr) (refs : list ustr) : result frame := Ok [[(u "id", u "1")]; [(u "id", u "2")]].
Definition nofe : fenv := {| fn_params := fun _ => None; fn_apply := fun _ _ => FNull; fn_table := [] |}.
Definition ncfg : ecfg := {| c_nquads := false; c_printable := false; c_safe := []; c_na := [[]] |}.
Lemma noref_template_refuted :
  (exists l, materialize_rules ncfg nofe [noref_rule] noref_data = Ok l /\ length l = 2%nat) /\ pa_labels [noref_rule] = None.
Proof. split; [eexists; split; vm_compute; reflexivity|vm_compute; reflexivity]. Qed.
