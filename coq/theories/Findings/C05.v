(* Recorded findings of C05 as checked facts about the faithful model: a reference-valued IRI and a blank-node label are
   copied raw from the data, so a value with a blank gives a term the reader rejects. *)
From Coq Require Import String.
From Morph Require Import Base.UStr Model.Terms Model.NQuads.
Local Open Scope N_scope.
Lemma ref_iri_refuted : read_term (delimit TIri (u "http://ex.org/a b") ++ [32]) = None.
Proof. vm_compute. reflexivity. Qed.
Lemma bnode_label_refuted : read_term (delimit TBnode (u "a b") ++ [32]) <> Some (TmBnode (u "a b"), [32]).
Proof. vm_compute. discriminate. Qed.
