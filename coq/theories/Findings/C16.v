From Coq Require Import String.
From Morph Require Import Base.UStr Model.Data Model.Purity.
Definition quoted_frame : pyframe := {| t_cols := [u "name"]; t_rows := [[VStr (u "say ""hi""")]] |}.
Lemma caller_frame_mutated_refuted : fst (ram_read quoted_frame) <> quoted_frame.
Proof. vm_compute. discriminate. Qed.
