(* Recorded findings of C15 as checked facts about the faithful model of str(int(float(s))) over int64. *)
From Coq Require Import String.
From Morph Require Import Base.UStr Gen.Tables Model.Terms.
Local Open Scope N_scope.
Lemma integer_rounds_refuted : canon Tables.c_xsd_integer (u "9007199254740993") = COk (u "9007199254740992").
Proof. vm_compute. reflexivity. Qed.
Lemma integer_truncates_refuted : canon Tables.c_xsd_integer (u "1.5") = COk (u "1").
Proof. vm_compute. reflexivity. Qed.
Lemma integer_wraps_refuted : canon Tables.c_xsd_integer (u "100000000000000000000") = COk (u "-9223372036854775808").
Proof. vm_compute. reflexivity. Qed.
Lemma integer_aborts_refuted : canon Tables.c_xsd_integer (u "abc") = CErr.
Proof. vm_compute. reflexivity. Qed.
