(* Recorded findings of C01 as checked facts about the faithful model (soft obligations). *)
From Morph Require Import Base.UStr.
