(* Recorded finding of C07 (self-join elimination), as a checked fact: on this document and table the faithful Engine model
   and the Spec join give different statements (a non-unique key loses the cross matches, a NULL key links to itself). *)
From Coq Require Import String.
From Morph Require Import Base.UStr Gen.Tables Model.Terms Model.Data Model.Engine Model.Mapping Model.Spec Model.Wire Model.Run.
Local Open Scope N_scope.
Definition sj_tm (k : mkind) (v : string) : tmap := mk_tmap k (u v) CkIri None.
Definition sj_doc : document :=
  [ {| t_id := u "TM0"; t_src := u "S0"; t_nonasserted := false; t_subj := sj_tm KTempl "http://ex.org/r/{id}"; t_sjoins := []; t_classes := []; t_sgraphs := [];
       t_poms := [ {| p_preds := [sj_tm KConst "http://ex.org/p"];
                      p_objs := [ {| o_tm := sj_tm KParent "TM1"; o_lang := None; o_dt := None; o_joins := [(u "name", u "name")] |} ]; p_graphs := [] |} ] |};
    {| t_id := u "TM1"; t_src := u "S0"; t_nonasserted := false; t_subj := sj_tm KTempl "http://ex.org/s/{id}"; t_sjoins := []; t_classes := []; t_sgraphs := [];
       t_poms := [ {| p_preds := [sj_tm KConst "http://ex.org/q"]; p_objs := [ {| o_tm := sj_tm KRef "id"; o_lang := None; o_dt := None; o_joins := [] |} ]; p_graphs := [] |} ] |} ].
Definition sj_src : list source :=
  [ {| src_key := u "S0"; src_kind := SCsv; src_table := {| t_cols := [u "id"; u "name"]; t_rows := [[VStr (u "1"); VStr (u "a")]; [VStr (u "2"); VStr (u "a")]] |} |} ].
Definition sj_cfg : ccfg := {| cc_nquads := false; cc_printable := false; cc_safe := []; cc_na := [[]; u "nan"] |}.
Lemma selfjoin_elim_refuted :
  match engine_lines sj_cfg sj_src sj_doc [] with
  | Ok l => negb (forallb (fun x => mem x l) (spec_case_lines sj_cfg sj_src sj_doc []))
  | Err _ => false
  end = true.
Proof. vm_compute. reflexivity. Qed.
