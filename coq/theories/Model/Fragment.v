(* The fragment of mappings and rules the end-to-end theorems of C01 are stated for, as computable predicates (the check
   evaluates them on every generated case through the extracted runner).  Definitions only; the lemmas are in Proofs/. *)
From Coq Require Import String.
From Morph Require Import Base.UStr Gen.Tables Model.Terms Model.Data Model.Engine Model.Mapping Model.Spec.
Local Open Scope N_scope.

Fixpoint flat (segs : list seg) : ustr :=
  match segs with [] => [] | SLit c :: r => c :: flat r | SVar n :: r => 123 :: n ++ 125 :: flat r end.
Fixpoint names (segs : list seg) : list ustr :=
  match segs with [] => [] | SLit _ :: r => names r | SVar n :: r => n :: names r end.
Definition plain_char (c : N) : bool := negb ((c =? 123) || (c =? 125) || (c =? 92)).
Definition name_ok (n : ustr) : bool :=
  match n with [] => false | _ => forallb plain_char n && negb (contains aux n) end.
Fixpoint wf (segs : list seg) : bool :=
  match segs with [] => true | SLit c :: r => plain_char c && wf r | SVar n :: r => name_ok n && wf r end.

Definition segs_of (k : mkind) (v : ustr) : list seg :=
  match k with KRef => [SVar v] | KConst => map SLit v | _ => parse_template v end.
Definition tpl0 (k : mkind) (v : ustr) : ustr := match k with KRef => 123 :: v ++ [125] | _ => v end.
(* well-formed term map value: braces balanced, no backslash escapes, reference names non-empty *)
Definition term_wf (k : mkind) (v : ustr) : bool := wf (segs_of k v) && ueqb (flat (segs_of k v)) (tpl0 k v).
(* the literal characters of the template need no escaping inside an RDF literal *)
Definition neutral (c : N) : bool := ueqb (esc_char c) [c].
Fixpoint lits_neutral (segs : list seg) : bool :=
  match segs with [] => true | SLit c :: r => neutral c && lits_neutral r | SVar _ :: r => lits_neutral r end.
Definition reserved : list ustr := [col_subject; col_predicate; col_object; col_graph; col_ld; col_triple; col_refres].
Definition is_pos (p : ustr) : bool := mem p [col_subject; col_predicate; col_object; col_graph; col_ld].

Definition plain_rule (rl : rule) : bool :=
  negb (all_constant rl) && negb (mkind_eqb (r_sk rl) KQuoted) && negb (mkind_eqb (r_ok rl) KQuoted) && negb (mkind_eqb (r_ok rl) KParent).
Definition neutral_dt (v : ustr) : bool :=
  negb (ueqb v Tables.c_xsd_boolean) && negb (ueqb v Tables.c_xsd_datetime) && negb (ueqb v Tables.c_xsd_integer).
Definition plain_map (m : tmap) : bool := is_plain (m_kind m) && ueqb (undelimit (m_kind m) (m_value m)) (m_value m).
Definition plain_graph (m : tmap) : bool :=
  plain_map m && (mkind_eqb (m_kind m) KConst || negb (ueqb (m_value m) Tables.c_rml_default_graph)).
Definition plain_objmap (o : objmap) : bool :=
  plain_map (o_tm o) &&
  match o_lang o, o_dt o with
  | None, None => true
  | Some l, None => mkind_eqb (m_kind l) KConst && neutral_dt (m_value l)
  | None, Some d => mkind_eqb (m_kind d) KConst
  | Some _, Some _ => false
  end.
Definition plain_pom (p : pom) : bool := forallb plain_map (p_preds p) && forallb plain_objmap (p_objs p) && forallb plain_graph (p_graphs p).
Definition plain_tm (t : tmapdef) : bool :=
  plain_map (t_subj t) && forallb plain_graph (t_sgraphs t) && forallb plain_pom (t_poms t)
  && match t_sjoins t with [] => true | _ => false end.
Definition pos_okb (k : mkind) (v : ustr) (tt : ttype) : bool :=
  is_plain k && term_wf k v && (match tt with TLit => lits_neutral (segs_of k v) | _ => true end)
  && forallb (fun n => negb (mem n reserved)) (names (segs_of k v)).
Definition simple_ruleb (rl : rule) : bool :=
  pos_okb (r_sk rl) (r_sv rl) (r_stt rl) && pos_okb (r_pk rl) (r_pv rl) TIri && pos_okb (r_ok rl) (r_ov rl) (r_ott rl)
  && (match r_ld rl with LDNone => mkind_eqb (r_ldk rl) KNone && ueqb (r_ldv rl) [] | _ => pos_okb (r_ldk rl) (r_ldv rl) TNone end)
  && (if is_plain (r_gk rl) then pos_okb (r_gk rl) (r_gv rl) TIri && (negb (ueqb (r_gv rl) Tables.c_rml_default_graph) || mkind_eqb (r_gk rl) KConst)
      else mkind_eqb (r_gk rl) KNone && ueqb (r_gv rl) [])
  && plain_rule rl && (match r_sjoin rl with [] => true | _ => false end) && (match r_ojoin rl with [] => true | _ => false end).

(* ---- referencing object maps (joins): the wider fragment of Proofs/DocJoinP.v *)
Definition join_objmap (o : objmap) : bool :=
  mkind_eqb (m_kind (o_tm o)) KParent
  && (match m_tt (o_tm o), o_lang o, o_dt o with None, None, None => true | _, _, _ => false end)
  && (match o_joins o with [] => false | _ => true end)
  && forallb (fun cp => ueqb (undelimit_ident (fst cp)) (fst cp) && ueqb (undelimit_ident (snd cp)) (snd cp)) (o_joins o).
(* R2RML's plain referencing object map: no join condition (the parent's subject term of the same row) *)
Definition self_objmap (o : objmap) : bool :=
  mkind_eqb (m_kind (o_tm o)) KParent
  && (match m_tt (o_tm o), o_lang o, o_dt o with None, None, None => true | _, _, _ => false end)
  && (match o_joins o with [] => true | _ => false end).
Definition ref_objmap (o : objmap) : bool := join_objmap o || self_objmap o.
(* a predicate-object map holds ordinary object maps only, or referencing object maps only *)
Definition jplain_pom (p : pom) : bool :=
  forallb plain_map (p_preds p) && (forallb plain_objmap (p_objs p) || forallb ref_objmap (p_objs p)) && forallb plain_graph (p_graphs p).
Definition jplain_tm (t : tmapdef) : bool :=
  plain_map (t_subj t) && forallb plain_graph (t_sgraphs t) && forallb jplain_pom (t_poms t)
  && match t_sjoins t with [] => true | _ => false end.
(* a referencing object map names a triples map of the document; one with join conditions is not among those the parser rewrites
   into a plain term map (same source and every condition comparing a column with itself); one without reads the same logical source *)
Definition parent_ok (d : document) (t : tmapdef) (o : objmap) : bool :=
  if ref_objmap o then
    match find (fun p => ueqb (t_id p) (m_value (o_tm o))) d with
    | Some p => if self_objmap o then ueqb (t_src t) (t_src p)
                else negb (ueqb (t_src t) (t_src p) && forallb (fun cp => ueqb (fst cp) (snd cp)) (o_joins o))
    | None => false
    end
  else true.
Definition parents_ok (d : document) : bool := forallb (fun t => forallb (fun p => forallb (parent_ok d t) (p_objs p)) (t_poms t)) d.
Fixpoint nodupb (l : list ustr) : bool := match l with [] => true | x :: r => negb (mem x r) && nodupb r end.
Fixpoint is_prefix (p s : ustr) : bool :=
  match p, s with [], _ => true | a :: p', b :: s' => (a =? b) && is_prefix p' s' | _ :: _, [] => false end.
Definition child_names_of (rl : rule) : list ustr :=
  names (segs_of (r_sk rl) (r_sv rl)) ++ names (segs_of (r_pk rl) (r_pv rl)) ++ names (segs_of (r_ldk rl) (r_ldv rl)) ++ names (segs_of (r_gk rl) (r_gv rl)).
(* a rule whose object is a referencing object map with join conditions, and its parent rule *)
Definition join_ruleb (rules : list rule) (rl : rule) : bool :=
  mkind_eqb (r_ok rl) KParent
  && pos_okb (r_sk rl) (r_sv rl) (r_stt rl) && pos_okb (r_pk rl) (r_pv rl) TIri
  && (match r_ld rl with LDNone => mkind_eqb (r_ldk rl) KNone && ueqb (r_ldv rl) [] | _ => false end)
  && (if is_plain (r_gk rl) then pos_okb (r_gk rl) (r_gv rl) TIri && (negb (ueqb (r_gv rl) Tables.c_rml_default_graph) || mkind_eqb (r_gk rl) KConst)
      else mkind_eqb (r_gk rl) KNone && ueqb (r_gv rl) [])
  && (match r_sjoin rl with [] => true | _ => false end) && (match r_ojoin rl with [] => false | _ => true end)
  && forallb (fun n => negb (is_prefix parent_prefix n)) (child_names_of rl ++ joins_child (r_ojoin rl))
  && match find_rule rules (r_ov rl) with
     | Some q => is_plain (r_sk q) && term_wf (r_sk q) (r_sv q) && (match r_ott rl with TLit => lits_neutral (segs_of (r_sk q) (r_sv q)) | _ => true end)
                 && (match r_sjoin q with [] => true | _ => false end)
     | None => false
     end.
(* the end-to-end theorem with joins (Proofs/DocJoinP.v) applies to this document *)
Definition theorem_applies_joins (d : document) : bool :=
  forallb jplain_tm d && nodupb (map t_id d) && parents_ok d &&
  match normalise d with
  | Ok rules => nodupb (map r_id rules) && forallb (fun rl => simple_ruleb rl || join_ruleb rules rl) rules
  | Err _ => false
  end.

(* ---- quoted triples maps at document level (Proofs/DocQuotedP.v): a triples map whose subject map quotes a plain triples map over the
   same rows (no join condition); its predicate-object maps are ordinary *)
Definition quoting_tm (t : tmapdef) : bool :=
  mkind_eqb (m_kind (t_subj t)) KQuoted && (match m_tt (t_subj t) with None => true | _ => false end)
  && forallb plain_graph (t_sgraphs t) && forallb plain_pom (t_poms t) && (match t_sjoins t with [] => true | _ => false end).

(* the quoted triples map is a plain triples map of the document *)
Definition quoted_ok (d : document) (t : tmapdef) : bool :=
  if quoting_tm t then
    match find (fun q => ueqb (t_id q) (m_value (t_subj t))) d with Some q => plain_tm q | None => false end
  else plain_tm t.
Definition quoted_doc (d : document) : bool := forallb (quoted_ok d) d && nodupb (map t_id d).

Definition rule_names_of (rl : rule) : list ustr :=
  names (segs_of (r_sk rl) (r_sv rl)) ++ names (segs_of (r_pk rl) (r_pv rl)) ++ names (segs_of (r_ok rl) (r_ov rl))
  ++ names (segs_of (r_ldk rl) (r_ldv rl)) ++ names (segs_of (r_gk rl) (r_gv rl)).
(* a rule whose subject quotes the (simple) rule b of the table *)
Definition quoting_ruleb (rules : list rule) (rl : rule) : bool :=
  mkind_eqb (r_sk rl) KQuoted && (match r_sjoin rl with [] => true | _ => false end) && (match r_ojoin rl with [] => true | _ => false end)
  && pos_okb (r_pk rl) (r_pv rl) TIri && pos_okb (r_ok rl) (r_ov rl) (r_ott rl)
  && (match r_ld rl with LDNone => mkind_eqb (r_ldk rl) KNone && ueqb (r_ldv rl) [] | _ => pos_okb (r_ldk rl) (r_ldv rl) TNone end)
  && (if is_plain (r_gk rl) then pos_okb (r_gk rl) (r_gv rl) TIri && (negb (ueqb (r_gv rl) Tables.c_rml_default_graph) || mkind_eqb (r_gk rl) KConst)
      else mkind_eqb (r_gk rl) KNone && ueqb (r_gv rl) [])
  && match find_rule rules (r_sv rl) with
     | Some b => simple_ruleb b && forallb (fun n => negb (ueqb n (keep_subject_col 0))) (rule_names_of b ++ rule_names_of rl)
     | None => false
     end.
(* the end-to-end theorem with quoted subject maps (Proofs/DocQuotedP.v) applies to this document *)
Definition theorem_applies_quoted (d : document) : bool :=
  quoted_doc d &&
  match normalise d with
  | Ok rules => nodupb (map r_id rules) && forallb (fun rl => simple_ruleb rl || quoting_ruleb rules rl) rules
  | Err _ => false
  end.

(* ---- quoted triples maps in OBJECT position at document level (Proofs/DocQuotedObjP.v): an object map that quotes a plain triples map
   over the same rows (no join condition, no term type / language / datatype of its own) *)
Definition qobj_objmap (o : objmap) : bool :=
  mkind_eqb (m_kind (o_tm o)) KQuoted
  && (match m_tt (o_tm o), o_lang o, o_dt o with None, None, None => true | _, _, _ => false end)
  && (match o_joins o with [] => true | _ => false end).
Definition qplain_pom (p : pom) : bool :=
  forallb plain_map (p_preds p) && (forallb plain_objmap (p_objs p) || forallb qobj_objmap (p_objs p)) && forallb plain_graph (p_graphs p).
Definition qobj_tm (t : tmapdef) : bool :=
  plain_map (t_subj t) && forallb plain_graph (t_sgraphs t) && forallb qplain_pom (t_poms t) && match t_sjoins t with [] => true | _ => false end.
Definition qobj_target_ok (d : document) (o : objmap) : bool :=
  if qobj_objmap o then match find (fun q => ueqb (t_id q) (m_value (o_tm o))) d with Some q => plain_tm q | None => false end else true.
Definition qobj_doc (d : document) : bool :=
  forallb (fun t => qobj_tm t && forallb (fun p => forallb (qobj_target_ok d) (p_objs p)) (t_poms t)) d && nodupb (map t_id d).

(* a rule whose object quotes the (simple) rule b of the table *)
Definition qobj_ruleb (rules : list rule) (rl : rule) : bool :=
  mkind_eqb (r_ok rl) KQuoted && (match r_sjoin rl with [] => true | _ => false end) && (match r_ojoin rl with [] => true | _ => false end)
  && pos_okb (r_sk rl) (r_sv rl) (r_stt rl) && pos_okb (r_pk rl) (r_pv rl) TIri
  && (match r_ld rl with LDNone => mkind_eqb (r_ldk rl) KNone && ueqb (r_ldv rl) [] | _ => false end)
  && (if is_plain (r_gk rl) then pos_okb (r_gk rl) (r_gv rl) TIri && (negb (ueqb (r_gv rl) Tables.c_rml_default_graph) || mkind_eqb (r_gk rl) KConst)
      else mkind_eqb (r_gk rl) KNone && ueqb (r_gv rl) [])
  && match find_rule rules (r_ov rl) with Some b => simple_ruleb b | None => false end.
Definition theorem_applies_qobj (d : document) : bool :=
  qobj_doc d &&
  match normalise d with
  | Ok rules => nodupb (map r_id rules) && forallb (fun rl => simple_ruleb rl || qobj_ruleb rules rl) rules
  | Err _ => false
  end.

(* the end-to-end theorem of C01 applies to this document and configuration *)
Definition theorem_applies (nquads : bool) (d : document) : bool :=
  forallb plain_tm d && match normalise d with Ok rules => forallb simple_ruleb rules | Err _ => false end.
