(* A strict reader for the N-Triples / N-Quads lines the engine emits (W3C grammar productions IRIREF, BLANK_NODE_LABEL,
   STRING_LITERAL_QUOTE with ECHAR, LANGTAG, ^^ IRIREF, optional graph label, final dot), and the printer it inverts.
   UCHAR escapes and RDF-star quoted triples are outside this reader (the engine never writes the former; the latter are
   checked against pyoxigraph only).  Scanners are structural; no fuel.  Definitions only. *)
From Coq Require Import String.
From Morph Require Import Base.UStr Model.Terms.
Local Open Scope N_scope.

Inductive annot := ANone | ALang (tag : ustr) | ADt (iri : ustr).
Inductive term := TmIri (body : ustr) | TmBnode (label : ustr) | TmLit (value : ustr) (a : annot).
(* subject, predicate, object, optional graph *)
Definition stmt := (term * term * term * option term)%type.

(* ---- printer: exactly the shapes materializer.py produces (delimiters L137-145, language and datatype suffix L197-212) *)
Definition print_term (t : term) : ustr :=
  match t with
  | TmIri b => 60 :: b ++ [62]
  | TmBnode l => 95 :: 58 :: l
  | TmLit v a => 34 :: escape_lit v ++ 34 ::
                 match a with ANone => [] | ALang t => 64 :: t | ADt i => 94 :: 94 :: 60 :: i ++ [62] end
  end.
Definition print_stmt (q : stmt) : ustr :=
  let '(s, p, o, g) := q in
  print_term s ++ 32 :: print_term p ++ 32 :: print_term o ++ 32 ::
  match g with Some gt => print_term gt ++ [32; 46] | None => [46] end.

(* ---- reader *)
(* IRIREF body character: none of #x00-#x20 < > dquote { } | ^ ` backslash *)
Definition iri_char_ok (c : N) : bool :=
  (32 <? c) && negb (c =? 60) && negb (c =? 62) && negb (c =? 34) && negb (c =? 123) && negb (c =? 125)
  && negb (c =? 124) && negb (c =? 94) && negb (c =? 96) && negb (c =? 92).
(* after the opening angle bracket: the body up to the closing one and what follows *)
Fixpoint read_iri (s : ustr) : option (ustr * ustr) :=
  match s with
  | [] => None
  | c :: r => if c =? 62 then Some ([], r)
              else if iri_char_ok c then option_map (fun br => (c :: fst br, snd br)) (read_iri r) else None
  end.
(* absolute: scheme colon ... *)
Fixpoint has_scheme_tail (s : ustr) : bool :=
  match s with
  | [] => false
  | c :: r => if c =? 58 then true
              else if is_alpha c || is_digit c || (c =? 43) || (c =? 45) || (c =? 46) then has_scheme_tail r else false
  end.
Definition absolute_iri (b : ustr) : bool := match b with c :: r => is_alpha c && has_scheme_tail r | [] => false end.

(* ECHAR *)
Definition echar (c : N) : option N :=
  if c =? 116 then Some 9 else if c =? 98 then Some 8 else if c =? 110 then Some 10
  else if c =? 114 then Some 13 else if c =? 102 then Some 12 else if c =? 34 then Some 34
  else if c =? 39 then Some 39 else if c =? 92 then Some 92 else None.
(* after the opening quote: decoded value up to the closing quote, and what follows.  pend = a backslash was read *)
Fixpoint read_string (pend : bool) (s : ustr) : option (ustr * ustr) :=
  match s with
  | [] => None
  | x :: r =>
      if pend then match echar x with
                   | Some d => option_map (fun vr => (d :: fst vr, snd vr)) (read_string false r)
                   | None => None
                   end
      else if x =? 92 then read_string true r
      else if x =? 34 then Some ([], r)
      else if (x =? 10) || (x =? 13) then None
      else option_map (fun vr => (x :: fst vr, snd vr)) (read_string false r)
  end.
(* the whole string is an escaped body (no closing quote inside): used for the character-for-character round trip *)
Fixpoint unesc (pend : bool) (s : ustr) : option ustr :=
  match s with
  | [] => if pend then None else Some []
  | x :: r =>
      if pend then match echar x with Some d => option_map (cons d) (unesc false r) | None => None end
      else if x =? 92 then unesc true r
      else if (x =? 34) || (x =? 10) || (x =? 13) then None
      else option_map (cons x) (unesc false r)
  end.

(* a run of characters up to the first blank; (run, rest starting at the blank or empty) *)
Fixpoint read_word (s : ustr) : ustr * ustr :=
  match s with
  | [] => ([], [])
  | c :: r => if (c =? 32) || (c =? 9) then ([], s) else let '(w, rest) := read_word r in (c :: w, rest)
  end.
(* a word directly followed by the final dot (the loaders join statements with a dot and a line feed): the dot is not part of it *)
Definition read_word_dot (s : ustr) : ustr * ustr :=
  let '(w, rest) := read_word s in
  match rev w with
  | 46 :: w' => (rev w', 46 :: rest)
  | _ => (w, rest)
  end.
(* LANGTAG  [a-zA-Z]+ (- [a-zA-Z0-9]+)*  as an automaton: state 0 = start of first subtag, 1 = inside first subtag,
   2 = start of a later subtag, 3 = inside a later subtag *)
Fixpoint langtag_ok (st : nat) (s : ustr) : bool :=
  match s with
  | [] => match st with 1%nat | 3%nat => true | _ => false end
  | c :: r =>
      match st with
      | 0%nat => is_alpha c && langtag_ok 1 r
      | 1%nat => if c =? 45 then langtag_ok 2 r else is_alpha c && langtag_ok 1 r
      | 2%nat => (is_alpha c || is_digit c) && langtag_ok 3 r
      | _ => if c =? 45 then langtag_ok 2 r else (is_alpha c || is_digit c) && langtag_ok 3 r
      end
  end.
(* BLANK_NODE_LABEL after the two characters _ and : is (PN_CHARS_U | [0-9]) ((PN_CHARS | dot)* PN_CHARS)?  -- ASCII part exact, every code point
   from U+00C0 on accepted except the few the grammar excludes *)
Definition pn_chars_u (c : N) : bool :=
  is_alpha c || (c =? 95) ||
  ((192 <=? c) && negb (c =? 215) && negb (c =? 247) && negb ((768 <=? c) && (c <=? 879)) && negb (c =? 894)
   && negb ((8192 <=? c) && (c <=? 8203)) && negb ((8206 <=? c) && (c <=? 8303)) && negb ((8592 <=? c) && (c <=? 11263))
   && negb ((12272 <=? c) && (c <=? 12288)) && negb ((55296 <=? c) && (c <=? 63743)) && negb ((64976 <=? c) && (c <=? 65007))
   && negb ((65534 <=? c) && (c <=? 65535)) && (c <? 983040)).
Definition pn_chars (c : N) : bool :=
  pn_chars_u c || (c =? 45) || is_digit c || (c =? 183) || ((768 <=? c) && (c <=? 879)) || ((8255 <=? c) && (c <=? 8256)).
Definition bnode_label_ok (l : ustr) : bool :=
  match l with
  | [] => false
  | c :: r => (pn_chars_u c || is_digit c) && forallb (fun x => pn_chars x || (x =? 46)) r
              && match rev r with [] => true | z :: _ => pn_chars z end
  end.

Definition read_term (s : ustr) : option (term * ustr) :=
  match s with
  | 60 :: r => match read_iri r with
               | Some (b, rest) => if absolute_iri b then Some (TmIri b, rest) else None
               | None => None
               end
  | 95 :: 58 :: r => let '(l, rest) := read_word_dot r in if bnode_label_ok l then Some (TmBnode l, rest) else None
  | 34 :: r =>
      match read_string false r with
      | None => None
      | Some (v, rest) =>
          match rest with
          | 64 :: r2 => let '(t, rest2) := read_word_dot r2 in if langtag_ok 0 t then Some (TmLit v (ALang t), rest2) else None
          | 94 :: 94 :: 60 :: r2 => match read_iri r2 with
                                    | Some (b, rest2) => if absolute_iri b then Some (TmLit v (ADt b), rest2) else None
                                    | None => None
                                    end
          | _ => Some (TmLit v ANone, rest)
          end
      end
  | _ => None
  end.
Fixpoint skip_blanks (s : ustr) : ustr := match s with 32 :: r => skip_blanks r | 9 :: r => skip_blanks r | _ => s end.
Definition is_subject (t : term) : bool := match t with TmLit _ _ => false | _ => true end.
Definition is_pred (t : term) : bool := match t with TmIri _ => true | _ => false end.
Definition is_dot (r : ustr) : bool := ueqb r [46].
Definition parse_line (l : ustr) : option stmt :=
  match read_term (skip_blanks l) with
  | Some (s, r1) =>
      match read_term (skip_blanks r1) with
      | Some (p, r2) =>
          match read_term (skip_blanks r2) with
          | Some (o, r3) =>
              if negb (is_subject s && is_pred p) then None else
              if is_dot (skip_blanks r3) then Some (s, p, o, None) else
              match read_term (skip_blanks r3) with
              | Some (g, r5) => if is_dot (skip_blanks r5) && is_subject g then Some (s, p, o, Some g) else None
              | None => None
              end
          | None => None
          end
      | None => None
      end
  | None => None
  end.

(* well-formedness of what is printed *)
Definition not_blank (c : N) : bool := negb ((c =? 32) || (c =? 9)).
Definition wf_iri (b : ustr) : bool := forallb iri_char_ok b && absolute_iri b.
Definition wf_term (t : term) : bool :=
  match t with
  | TmIri b => wf_iri b
  | TmBnode l => bnode_label_ok l && forallb not_blank l && negb (match rev l with 46 :: _ => true | _ => false end)
  | TmLit _ ANone => true
  | TmLit _ (ALang t) => langtag_ok 0 t && forallb not_blank t && negb (match rev t with 46 :: _ => true | _ => false end)
  | TmLit _ (ADt i) => wf_iri i
  end.
Definition wf_stmt (q : stmt) : bool :=
  let '(s, p, o, g) := q in
  wf_term s && wf_term p && wf_term o && is_subject s && is_pred p
  && match g with Some gt => wf_term gt && is_subject gt | None => true end.
