(* Decoding of correspondence cases from the wire format (S-expressions) into model types, and encoding of results. *)
From Coq Require Import String.
From Morph Require Import Base.UStr Base.Sexp Gen.Tables Model.Terms Model.Data Model.Engine Model.Mapping Model.Spec.
Local Open Scope N_scope.

Definition tag_is (t : ustr) (s : string) : bool := ueqb t (u s).

Definition de_mkind (x : sexp) : option mkind :=
  do s <- de_str x;
  if tag_is s "const" then Some KConst else if tag_is s "templ" then Some KTempl else if tag_is s "ref" then Some KRef
  else if tag_is s "quoted" then Some KQuoted else if tag_is s "parent" then Some KParent else if tag_is s "exec" then Some KExec
  else if tag_is s "none" then Some KNone else None.
Definition de_ttype_opt (x : sexp) : option (option ttype) :=
  do s <- de_str x;
  if tag_is s "" then Some None else if tag_is s "iri" then Some (Some TIri) else if tag_is s "bnode" then Some (Some TBnode)
  else if tag_is s "lit" then Some (Some TLit) else if tag_is s "star" then Some (Some TStar) else None.
Definition de_ckind (x : sexp) : option ckind :=
  do s <- de_str x;
  if tag_is s "iri" then Some CkIri else if tag_is s "lit" then Some CkLit else if tag_is s "bnode" then Some CkBnode else None.
Definition de_tmap (x : sexp) : option tmap :=
  match x with
  | L [k; v; ck; ty] => do k' <- de_mkind k; do v' <- de_str v; do ck' <- de_ckind ck; do tt' <- de_ttype_opt ty;
                        Some (mk_tmap k' v' ck' tt')
  | _ => None
  end.
Definition de_opt {T} (f : sexp -> option T) (x : sexp) : option (option T) :=
  match x with L [] => Some None | L [y] => do v <- f y; Some (Some v) | _ => None end.
Definition de_pair (x : sexp) : option (ustr * ustr) :=
  match x with L [A a; A b] => Some (a, b) | _ => None end.
Definition de_listof {T} (f : sexp -> option T) (x : sexp) : option (list T) :=
  match x with L l => de_all f l | _ => None end.
Definition de_objmap (x : sexp) : option objmap :=
  match x with
  | L [m; l; d; j] => do m' <- de_tmap m; do l' <- de_opt de_tmap l; do d' <- de_opt de_tmap d; do j' <- de_listof de_pair j;
                      Some {| o_tm := m'; o_lang := l'; o_dt := d'; o_joins := j' |}
  | _ => None
  end.
Definition de_pom (x : sexp) : option pom :=
  match x with
  | L [ps; os; gs] => do ps' <- de_listof de_tmap ps; do os' <- de_listof de_objmap os; do gs' <- de_listof de_tmap gs;
                      Some {| p_preds := ps'; p_objs := os'; p_graphs := gs' |}
  | _ => None
  end.
Definition de_tm (x : sexp) : option tmapdef :=
  match x with
  | L [A id; A src; na; sm; sj; cls; sgs; poms] =>
      do na' <- de_bool na; do sm' <- de_tmap sm; do sj' <- de_listof de_pair sj; do cls' <- de_strs cls;
      do sgs' <- de_listof de_tmap sgs; do poms' <- de_listof de_pom poms;
      Some {| t_id := id; t_src := src; t_nonasserted := na'; t_subj := sm'; t_sjoins := sj'; t_classes := cls';
              t_sgraphs := sgs'; t_poms := poms' |}
  | _ => None
  end.
Definition de_doc := de_listof de_tm.
(* function executions: (id function ((parameter kind value) ...)) *)
Definition de_exec (x : sexp) : option (list fexec) :=
  match x with
  | L [A id; A fn; ins] =>
      do ins' <- de_listof (fun y => match y with L [A p; k; A v] => do k' <- de_mkind k; Some (p, k', v) | _ => None end) ins;
      Some (match ins' with
            | [] => [{| fe_id := id; fe_fun := fn; fe_param := []; fe_kind := KNone; fe_value := [] |}]
            | _ => map (fun pkv => {| fe_id := id; fe_fun := fn; fe_param := fst (fst pkv); fe_kind := snd (fst pkv); fe_value := snd pkv |}) ins'
            end)
  | _ => None
  end.
Definition de_execs (x : sexp) : option (list fexec) := do l <- de_listof de_exec x; Some (concat l).

Definition Z_of_dec (s : ustr) : option Z :=
  match s with
  | 45 :: r => option_map (fun n => Z.opp (Z.of_N n)) (N_of_dec r)
  | _ => option_map Z.of_N (N_of_dec s)
  end.
Definition de_value (x : sexp) : option value :=
  match x with
  | L [] => Some VNull
  | L [A t; A v] =>
      if tag_is t "s" then Some (VStr v)
      else if tag_is t "i" then option_map VInt (Z_of_dec v)
      else if tag_is t "f" then option_map VFloatI (Z_of_dec v)
      else if tag_is t "b" then (if tag_is v "true" then Some (VBool true) else if tag_is v "false" then Some (VBool false) else None)
      else None
  | _ => None
  end.
Definition de_skind (x : sexp) : option skind :=
  do s <- de_str x;
  if tag_is s "csv" then Some SCsv else if tag_is s "sqltable" then Some SSqlTable else if tag_is s "sqlquery" then Some SSqlQuery
  else if tag_is s "columnar" then Some SColumnar else if tag_is s "json" then Some SJson else if tag_is s "xml" then Some SXml else if tag_is s "view" then Some SView
  else if tag_is s "frame" then Some SFrame else None.
Record source := { src_key : ustr; src_kind : skind; src_table : table }.
Definition de_source (x : sexp) : option source :=
  match x with
  | L [A key; k; cols; rows] =>
      do k' <- de_skind k; do cols' <- de_strs cols; do rows' <- de_listof (de_listof de_value) rows;
      Some {| src_key := key; src_kind := k'; src_table := {| t_cols := cols'; t_rows := rows' |} |}
  | _ => None
  end.
Record ccfg := { cc_nquads : bool; cc_printable : bool; cc_safe : ustr; cc_na : list ustr }.
Definition de_cfg (x : sexp) : option ccfg :=
  match x with
  | L [nq; pr; A safe; na] => do nq' <- de_bool nq; do pr' <- de_bool pr; do na' <- de_strs na;
                              Some {| cc_nquads := nq'; cc_printable := pr'; cc_safe := safe; cc_na := na' |}
  | _ => None
  end.
Definition to_ecfg (c : ccfg) : ecfg := {| c_nquads := cc_nquads c; c_printable := cc_printable c; c_safe := cc_safe c; c_na := cc_na c |}.
Definition to_scfg (c : ccfg) : scfg := {| s_nquads := cc_nquads c; s_printable := cc_printable c; s_safe := cc_safe c; s_na := cc_na c |}.

(* _get_data over the sources of a case *)
Definition find_source (srcs : list source) (key : ustr) : option source := find (fun s => ueqb (src_key s) key) srcs.
Definition case_get_data (c : ccfg) (srcs : list source) (key : ustr) (refs : list ustr) : result frame :=
  match find_source srcs key with
  | None => Err EOther
  | Some s => rdo raw <- arrive (src_kind s) refs (src_table s); Ok (preprocess (cc_na c) refs raw)
  end.
(* the abstract table the specification reads: NULL stays NULL, every other value is its own text *)
Definition value_text (v : value) : option ustr :=
  match v with
  | VNull => None | VStr s => Some s | VInt z => Some (dec_of_Z z) | VFloatI z => Some (dec_of_Z z ++ u ".0")
  | VBool true => Some (u "True") | VBool false => Some (u "False")
  end.
(* a CSV/TSV file cannot tell NULL from the empty string: there the NULL of the abstract table is the empty cell,
   which is null exactly when the empty string is listed in na_values *)
Definition kind_text (k : skind) (v : value) : option ustr :=
  match k, v with
  | SCsv, VNull => Some []
  | SXml, VStr [] => None | SView, VStr [] => None      (* these formats cannot hold an empty string *)
  | _, _ => value_text v
  end.
Definition case_tables (srcs : list source) (key : ustr) : stable :=
  match find_source srcs key with
  | None => []
  | Some s => map (fun r => combine (t_cols (src_table s)) (map (kind_text (src_kind s)) r)) (t_rows (src_table s))
  end.

Definition err_name (e : err) : ustr :=
  match e with EKey => u "KeyError" | EValue => u "ValueError" | EOther => u "Other" | EFuel => u "Fuel" | EUnmodelled => u "Unmodelled" end.
Definition sx_result (r : result (list ustr)) : sexp :=
  match r with Ok l => L [A (u "ok"); sx_strs l] | Err e => L [A (u "error"); A (err_name e)] end.

(* cases whose outcome depends on behaviour the model does not follow (Unicode lower-casing, float lexical forms outside
   the modelled grammar): decided from the datatypes named in the document and the cells of the sources *)
Definition doc_datatypes (d : document) : list ustr :=
  flat_map (fun t => flat_map (fun p => flat_map (fun o => match o_dt o with Some m => [m_value m] | None => [] end) (p_objs p)) (t_poms t)) d.
Definition cell_texts (srcs : list source) : list ustr :=
  flat_map (fun s => flat_map (fun r => flat_map (fun v => match value_text v with Some x => [x] | None => [] end) r) (t_rows (src_table s))) srcs.
Definition case_unmodelled (srcs : list source) (d : document) : bool :=
  existsb (fun dt => existsb (fun v => match canon dt v with CUnmodelled => true | _ => false end) (cell_texts srcs)) (doc_datatypes d).
