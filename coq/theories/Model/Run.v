(* The single entry point of the executable model: one S-expression in, one out. *)
From Coq Require Import String.
From Morph Require Import Base.UStr Base.Sexp Gen.Tables Model.SqlTypes Model.Spec20 Model.Terms Model.Data Model.Engine
  Model.Mapping Model.Partition Model.Spec Model.Wire Model.NQuads Model.Config Model.Writer Model.Functions Model.Fragment.
Local Open Scope N_scope.

Definition run_c20 (tag : ustr) (args : list sexp) : option sexp :=
  if tag_is tag "c20.lookup" then
    match args with [A t] => Some (sx_opt (lookup Tables.sql_rdf_datatype t)) | _ => None end
  else if tag_is tag "c20.catalog" then
    Some (L (map (fun tx => L [A (fst tx); sx_opt (snd tx)]) catalog_types))
  else if tag_is tag "c20.infer" then
    match args with
    | [e; r; l; h; o; x; c] =>
        do e' <- de_bool e; do r' <- de_bool r; do l' <- de_bool l; do h' <- de_bool h; do o' <- de_bool o;
        do x' <- de_optstr x; do c' <- de_optstr c;
        Some (sx_opt (inferred_datatype e' r' l' h' o' x' c'))
    | _ => None
    end
  else None.

(* ---- mapping family *)
Definition mk_fenv (ex : list fexec) : fenv := {| fn_params := fun_params; fn_apply := apply_fun; fn_table := ex |}.
Definition engine_lines (c : ccfg) (srcs : list source) (d : document) (ex : list fexec) : result (list ustr) :=
  rdo rules <- normalise d;
  materialize_rules (to_ecfg c) (mk_fenv ex) rules (case_get_data c srcs).
Definition spec_case_lines (c : ccfg) (srcs : list source) (d : document) (ex : list fexec) : list ustr :=
  spec_lines (to_scfg c) (mk_fenv ex) d (case_tables srcs).

Definition sx_mkind (k : mkind) : sexp :=
  A (match k with KConst => u "const" | KTempl => u "templ" | KRef => u "ref" | KQuoted => u "quoted" | KParent => u "parent"
              | KExec => u "exec" | KNone => u "none" end).
Definition sx_ttype (t : ttype) : sexp :=
  A (match t with TIri => u "iri" | TBnode => u "bnode" | TLit => u "lit" | TStar => u "star" | TNone => u "" end).
Definition sx_ld (k : ldkind) : sexp := A (match k with LDNone => u "" | LDLang => u "lang" | LDDt => u "dt" end).
Definition sx_joins (j : list (ustr * ustr)) : sexp := L (map (fun cp => L [A (fst cp); A (snd cp)]) j).
Definition sx_rule (r : rule) : sexp :=
  L [A (r_id r); A (r_tm r); A (r_src r); sx_bool (r_asserted r);
     sx_mkind (r_sk r); A (r_sv r); sx_ttype (r_stt r); sx_mkind (r_pk r); A (r_pv r);
     sx_mkind (r_ok r); A (r_ov r); sx_ttype (r_ott r); sx_ld (r_ld r); sx_mkind (r_ldk r); A (r_ldv r);
     sx_mkind (r_gk r); A (r_gv r); sx_joins (r_sjoin r); sx_joins (r_ojoin r)].
Definition sx_labels (l : option (list (ustr * label))) : sexp :=
  match l with
  | None => L [A (u "error"); A (u "Other")]
  | Some labs => L [A (u "ok"); L (map (fun il => L [A (fst il); L (map sx_nat (snd il))]) labs)]
  end.

Definition run_map (tag : ustr) (args : list sexp) : option sexp :=
  if tag_is tag "mat" then
    match args with
    | [c; s; d; ex] => do c' <- de_cfg c; do s' <- de_listof de_source s; do d' <- de_doc d; do ex' <- de_execs ex;
                   Some (if case_unmodelled s' d' then sx_result (Err EUnmodelled) else sx_result (engine_lines c' s' d' ex'))
    | _ => None
    end
  else if tag_is tag "spec" then
    match args with
    | [c; s; d; ex] => do c' <- de_cfg c; do s' <- de_listof de_source s; do d' <- de_doc d; do ex' <- de_execs ex;
                   (* a case the function registry does not follow (non-ASCII case mapping ...) is unmodelled for the Spec too *)
                   Some (if case_unmodelled s' d' || (match engine_lines c' s' d' ex' with Err EUnmodelled => true | _ => false end)
                         then sx_result (Err EUnmodelled) else L [A (u "ok"); sx_strs (spec_case_lines c' s' d' ex')])
    | _ => None
    end
  else if tag_is tag "applies" then
    (* does the end-to-end theorem of C01 (Proofs/DocEngineP.v) cover this configuration and document? *)
    match args with
    | [c; d] => do c' <- de_cfg c; do d' <- de_doc d; Some (L [A (u "ok"); sx_bool (theorem_applies (cc_nquads c') d' || theorem_applies_joins d' || theorem_applies_quoted d' || theorem_applies_qobj d')])
    | _ => None
    end
  else if tag_is tag "rules" then
    match args with
    | [d] => do d' <- de_doc d;
             Some (match normalise d' with Ok rs => L [A (u "ok"); L (map sx_rule rs)] | Err e => L [A (u "error"); A (err_name e)] end)
    | _ => None
    end
  else if tag_is tag "partition" then
    match args with
    | [A mode; d] => do d' <- de_doc d;
        Some (match normalise d' with
              | Ok rs => if tag_is mode "pa" then sx_labels (pa_labels rs) else if tag_is mode "max" then sx_labels (max_labels rs)
                         else sx_labels (Some (map (fun r => (r_id r, [])) rs))
              | Err e => L [A (u "error"); A (err_name e)]
              end)
    | _ => None
    end
  else if tag_is tag "sepmatrix" then
    match args with
    | [nq; d] => do nq' <- de_bool nq; do d' <- de_doc d;
        Some (match normalise d' with
              | Ok rs => match sep_matrix nq' rs with
                         | Some m => L [A (u "ok"); L (map sx_rule rs); L (map (fun x => L [A (fst (fst x)); A (snd (fst x)); sx_bool (snd x)]) m)]
                         | None => L [A (u "error"); A (u "Other")]
                         end
              | Err e => L [A (u "error"); A (err_name e)]
              end)
    | _ => None
    end
  else None.

(* ---- strings / lines family *)
Definition sx_term (t : term) : sexp :=
  match t with
  | TmIri b => L [A (u "iri"); A b]
  | TmBnode l => L [A (u "bnode"); A l]
  | TmLit v ANone => L [A (u "lit"); A v; A []; A []]
  | TmLit v (ALang t) => L [A (u "lit"); A v; A (u "@"); A t]
  | TmLit v (ADt i) => L [A (u "lit"); A v; A (u "^"); A i]
  end.
Definition run_str (tag : ustr) (args : list sexp) : option sexp :=
  if tag_is tag "parse" then
    match args with
    | [A l] => Some (match parse_line l with
                     | Some (s, p, o, g) => L [A (u "ok"); sx_term s; sx_term p; sx_term o; match g with Some gt => L [sx_term gt] | None => L [] end]
                     | None => L [A (u "none")]
                     end)
    | _ => None
    end
  else if tag_is tag "escape" then
    match args with [A s] => Some (A (escape_lit s)) | _ => None end
  else if tag_is tag "pct" then
    match args with [A safe; A s] => Some (A (pct_encode safe s)) | _ => None end
  else if tag_is tag "printable" then
    match args with [A s] => Some (A (remove_non_printable s)) | _ => None end
  else if tag_is tag "canon" then
    match args with
    | [A dt; A s] => Some (match canon dt s with COk r => L [A (u "ok"); A r] | CErr => L [A (u "error")] | CUnmodelled => L [A (u "unmodelled")] end)
    | _ => None
    end
  else None.

(* ---- configuration family *)
Definition sx_optbool (o : option bool) : sexp := match o with Some b => sx_bool b | None => A (u "error") end.
Definition run_cfg (tag : ustr) (args : list sexp) : option sexp :=
  if tag_is tag "config.load" then
    match args with
    | [pairs; A group] =>
        do m <- de_listof de_pair pairs;
        Some (match load m with
              | Err e => L [A (u "error"); A (err_name e)]
              | Ok m' =>
                  let g k := match cget m' k with Some v => v | None => u "<missing>" end in
                  L [A (u "ok");
                     L [A (g Tables.o_output_format); A (g Tables.o_logging_level); A (g Tables.o_mapping_partitioning);
                        A (g Tables.o_output_dir); A (g Tables.o_output_file); A (g Tables.o_safe_percent_encoding);
                        A (match getint (g Tables.o_number_of_processes) with Some z => dec_of_Z z | None => u "error" end)];
                     sx_strs (na_values (g Tables.o_na_values));
                     sx_optbool (getboolean (g Tables.o_only_printable_chars));
                     sx_optbool (getboolean (g Tables.o_infer_sql_datatypes));
                     sx_opt (output_path m' group)]
              end)
    | _ => None
    end
  else None.

(* ---- output family *)
Definition de_file (x : sexp) : option (ustr * list ustr) :=
  match x with L [A p; ls] => do ls' <- de_strs ls; Some (p, ls') | _ => None end.
Definition de_run (x : sexp) : option run :=
  match x with L [cl; ws] => do cl' <- de_strs cl; do ws' <- de_listof de_file ws; Some {| clears := cl'; writes := ws' |} | _ => None end.
Definition run_out (tag : ustr) (args : list sexp) : option sexp :=
  if tag_is tag "fs.history" then
    match args with
    | [f0; runs] => do f <- de_listof de_file f0; do rs <- de_listof de_run runs;
                    Some (L (map (fun pc => L [A (fst pc); sx_strs (snd pc)]) (fold_left cli_run rs f)))
    | _ => None
    end
  else if tag_is tag "payloads" then
    (* line lengths in, payload lengths out (the bytes themselves do not matter to the policy) *)
    match args with
    | [lens] => do ls <- de_listof de_nat lens;
                Some (L (map (fun p => sx_nat (length p)) (raw_payloads (map (fun n => repeat 120 n) ls))))
    | _ => None
    end
  else None.

Fixpoint first_some {T} (l : list (option T)) : option T :=
  match l with [] => None | Some x :: _ => Some x | None :: r => first_some r end.

Definition run_case (x : sexp) : sexp :=
  match x with
  | L (A tag :: args) =>
      match first_some [run_c20 tag args; run_map tag args; run_str tag args; run_cfg tag args; run_out tag args] with
      | Some r => r
      | None => sx_err (u "bad-case")
      end
  | _ => sx_err (u "bad-case")
  end.
