(* The single entry point of the executable model: one S-expression in, one out. *)
From Coq Require Import String.
From Morph Require Import Base.UStr Base.Sexp Gen.Tables Model.SqlTypes Model.Spec20.
Local Open Scope N_scope.

Definition tag_is (t : ustr) (s : string) : bool := ueqb t (u s).

Definition run_c20 (tag : ustr) (args : list sexp) : option sexp :=
  if tag_is tag "c20.lookup" then
    match args with [A t] => Some (sx_opt (lookup Tables.sql_rdf_datatype t)) | _ => None end
  else if tag_is tag "c20.catalog" then
    Some (L (map (fun tx => L [A (fst tx); sx_opt (snd tx)]) catalog_types))
  else if tag_is tag "c20.infer" then
    match args with
    | [e; r; l; h; o; x; c] =>
        do e' <- de_bool e; do r' <- de_bool r; do l' <- de_bool l; do h' <- de_bool h; do o' <- de_bool o;
        do x' <- de_optstr x; do c' <- de_optstr c;
        Some (sx_opt (inferred_datatype e' r' l' h' o' x' c'))
    | _ => None
    end
  else None.

Definition run_case (x : sexp) : sexp :=
  match x with
  | L (A tag :: args) =>
      match run_c20 tag args with
      | Some r => r
      | None => sx_err (u "bad-case")
      end
  | _ => sx_err (u "bad-case")
  end.
