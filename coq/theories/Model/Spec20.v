(* Specification data for C20: the R2RML natural mapping (R2RML section 10.2) extended to the type names that the
   catalogues of the supported DBMSs report (information_schema.columns.data_type for MySQL / MariaDB / PostgreSQL /
   SQL Server, all_tab_columns.data_type for Oracle).  Hand-written; part of the trusted base. *)
From Coq Require Import String.
From Morph Require Import Base.UStr.
Local Open Scope string_scope.

Inductive xsd := Xhex | Xint | Xdec | Xdbl | Xbool | Xdate | Xtime | Xdt.
Definition xsd_iri (x : xsd) : ustr :=
  (u "http://www.w3.org/2001/XMLSchema#" ++
  match x with
  | Xhex => u "hexBinary" | Xint => u "integer" | Xdec => u "decimal" | Xdbl => u "double"
  | Xbool => u "boolean" | Xdate => u "date" | Xtime => u "time" | Xdt => u "dateTime"
  end)%list.

(* (catalogue type name, natural-mapping datatype; None = plain literal) *)
Definition catalog_spec : list (string * option xsd) := [
  (* R2RML 10.2 rows, SQL 2008 names *)
  ("BINARY", Some Xhex); ("BINARY VARYING", Some Xhex); ("BINARY LARGE OBJECT", Some Xhex); ("VARBINARY", Some Xhex); ("BLOB", Some Xhex);
  ("NUMERIC", Some Xdec); ("DECIMAL", Some Xdec);
  ("SMALLINT", Some Xint); ("INTEGER", Some Xint); ("INT", Some Xint); ("BIGINT", Some Xint);
  ("FLOAT", Some Xdbl); ("REAL", Some Xdbl); ("DOUBLE PRECISION", Some Xdbl); ("DOUBLE", Some Xdbl);
  ("BOOLEAN", Some Xbool);
  ("DATE", Some Xdate); ("TIME", Some Xtime); ("TIMESTAMP", Some Xdt);
  ("TIME WITH TIME ZONE", Some Xtime); ("TIME WITHOUT TIME ZONE", Some Xtime);
  ("TIMESTAMP WITH TIME ZONE", Some Xdt); ("TIMESTAMP WITHOUT TIME ZONE", Some Xdt);
  ("CHARACTER", None); ("CHAR", None); ("CHARACTER VARYING", None); ("VARCHAR", None);
  ("CHARACTER LARGE OBJECT", None); ("CLOB", None); ("NATIONAL CHARACTER", None); ("NCHAR", None); ("NCLOB", None);
  (* lower case, as PostgreSQL's information_schema reports *)
  ("integer", Some Xint); ("bigint", Some Xint); ("smallint", Some Xint); ("numeric", Some Xdec);
  ("double precision", Some Xdbl); ("real", Some Xdbl); ("boolean", Some Xbool); ("date", Some Xdate);
  ("timestamp without time zone", Some Xdt); ("timestamp with time zone", Some Xdt);
  ("time without time zone", Some Xtime); ("character varying", None); ("text", None); ("character", None);
  ("uuid", None); ("json", None); ("jsonb", None); ("xml", None); ("bytea", Some Xhex);
  (* MySQL / MariaDB *)
  ("tinyint", Some Xbool) (* MySQL reports BOOL/BOOLEAN columns as tinyint; the type table of the engine maps it explicitly *); ("mediumint", Some Xint); ("int", Some Xint); ("datetime", Some Xdt); ("timestamp", Some Xdt);
  ("year", None); ("varchar", None); ("char", None); ("tinytext", None); ("mediumtext", None); ("longtext", None);
  ("tinyblob", Some Xhex); ("mediumblob", Some Xhex); ("longblob", Some Xhex); ("varbinary", Some Xhex);
  ("decimal", Some Xdec); ("float", Some Xdbl); ("double", Some Xdbl); ("enum", None); ("set", None);
  (* SQL Server *)
  ("datetime2", Some Xdt); ("smalldatetime", Some Xdt); ("datetimeoffset", Some Xdt); ("nvarchar", None); ("ntext", None);
  ("uniqueidentifier", None); ("money", None); ("bit", None);
  (* Oracle *)
  ("NUMBER", Some Xdbl); ("VARCHAR2", None); ("NVARCHAR2", None); ("RAW", Some Xhex); ("LONG RAW", Some Xhex);
  ("BFILE", Some Xhex); ("TIMESTAMP(6)", Some Xdt); ("TIMESTAMP(6) WITH TIME ZONE", Some Xdt);
  ("BINARY_FLOAT", Some Xdbl); ("BINARY_DOUBLE", Some Xdbl); ("ROWID", None);
  ("INTERVAL YEAR(2) TO MONTH", None); ("INTERVAL DAY(2) TO SECOND(6)", None);
  (* other names containing a key of the table *)
  ("interval", None); ("point", None)
].
Definition catalog_types : list (ustr * option ustr) :=
  map (fun tx => (u (fst tx), option_map xsd_iri (snd tx))) catalog_spec.
