(* __init__.py materialize L61-69 / materialize_oxigraph L72-80: the statements are joined with ".\n", a final "." is
   added, and the text is handed to an N-Quads parser.  The parsers are rdflib's and Oxigraph's; what is modelled is the
   repository's glue and what a line-oriented N-Quads reader makes of it.  Definitions only. *)
From Coq Require Import String.
From Morph Require Import Base.UStr Model.Terms Model.NQuads.
Local Open Scope N_scope.

Definition serialise (S : list ustr) : ustr := join [46; 10] S ++ [46].
(* an N-Quads document is read statement by statement, one per line *)
Definition split_doc (d : ustr) : list ustr := split_on [10] d.
Definition load (S : list ustr) : list (option stmt) :=
  match S with
  | [] => []                                  (* `if triples:` -- nothing is parsed for an empty result *)
  | _ => map parse_line (split_doc (serialise S))
  end.
