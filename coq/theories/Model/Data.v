(* Data model: cells as the source readers deliver them, Python str() of a cell, the rows the materializer works on, and
   materializer.py `_preprocess_data` L30-48 with utils.py `remove_null_values_from_dataframe` L237-246.
   Definitions only. *)
From Coq Require Import String.
From Morph Require Import Base.UStr Model.Terms.
Local Open Scope N_scope.

(* ---------------------------------------------------------------- results *)
Inductive err := EKey | EValue | EOther | EFuel | EUnmodelled.
Inductive result (A : Type) := Ok (a : A) | Err (e : err).
Arguments Ok {A} a. Arguments Err {A} e.
Definition rbind {A B} (x : result A) (f : A -> result B) : result B :=
  match x with Ok a => f a | Err e => Err e end.
Notation "'rdo' x <- e ; f" := (rbind e (fun x => f)) (at level 200, x pattern, e at level 100, f at level 200).
Fixpoint rmap_all {A B} (f : A -> result B) (l : list A) : result (list B) :=
  match l with
  | [] => Ok []
  | x :: r => match f x with
              | Ok y => match rmap_all f r with Ok ys => Ok (y :: ys) | Err e => Err e end
              | Err e => Err e
              end
  end.

(* ---------------------------------------------------------------- cells *)
(* what a reader hands over for one cell.  CFloatI z is a float with integral value z (printed "z.0"),
   CFloatS carries the repr computed by Python (opaque to the model). *)
Inductive cell := CStr (s : ustr) | CNone | CNaN | CInt (z : Z) | CFloatI (z : Z) | CFloatS (s : ustr) | CBool (b : bool).

(* Python str(x) *)
Definition py_str (c : cell) : ustr :=
  match c with
  | CStr s => s
  | CNone => u "None"
  | CNaN => u "nan"
  | CInt z => dec_of_Z z
  | CFloatI z => dec_of_Z z ++ u ".0"
  | CFloatS s => s
  | CBool true => u "True"
  | CBool false => u "False"
  end.

(* ---------------------------------------------------------------- rows and frames *)
(* a row of a DataFrame whose cells are all str: column name -> value.  Writing a column that exists overwrites it
   (this is how a working column of the materializer can shadow a data column). *)
Definition row := list (ustr * ustr).
Definition rget (k : ustr) (r : row) : option ustr := assoc k r.
Fixpoint rset (k v : ustr) (r : row) : row :=
  match r with
  | [] => [(k, v)]
  | (k', v') :: t => if ueqb k k' then (k, v) :: t else (k', v') :: rset k v t
  end.
Fixpoint rdrop (k : ustr) (r : row) : row :=
  match r with
  | [] => []
  | (k', v') :: t => if ueqb k k' then rdrop k t else (k', v') :: rdrop k t
  end.
Definition frame := list row.

Fixpoint row_eqb (a b : row) : bool :=
  match a, b with
  | [], [] => true
  | (k, v) :: a', (k', v') :: b' => ueqb k k' && ueqb v v' && row_eqb a' b'
  | _, _ => false
  end.
Fixpoint row_mem (r : row) (l : frame) : bool := match l with [] => false | x :: t => row_eqb r x || row_mem r t end.
(* DataFrame.drop_duplicates(): keeps the first occurrence *)
Fixpoint drop_dups_aux (seen : frame) (l : frame) : frame :=
  match l with
  | [] => []
  | x :: t => if row_mem x seen then drop_dups_aux seen t else x :: drop_dups_aux (x :: seen) t
  end.
Definition drop_duplicates (f : frame) : frame := drop_dups_aux [] f.

(* ---------------------------------------------------------------- _preprocess_data *)
(* raw rows: column name -> cell as delivered by the reader *)
Definition rawrow := list (ustr * cell).
(* step 0  dropna(subset=references);  step 1  data.map(str);  step 2  replace(na_values, None);  step 3  dropna(subset=references);
   step 4  astype(str) (a remaining None in a non-referenced column prints as "None"; convert_dtypes makes it "<NA>",
           neither can be referenced);  step 5  drop_duplicates *)
Definition is_na (na : list ustr) (s : ustr) : bool := mem s na.
Definition str_row (r : rawrow) : row := map (fun kc => (fst kc, py_str (snd kc))) r.
Definition row_has_null (na : list ustr) (refs : list ustr) (r : row) : bool :=
  existsb (fun k => match rget k r with Some v => is_na na v | None => false end) refs.
Definition null_to_text (na : list ustr) (r : row) : row :=
  map (fun kv => (fst kv, if is_na na (snd kv) then u "<NA>" else snd kv)) r.
(* step 0 (since the repair of the NULL-as-text defect): dropna(subset=references) on the cells as delivered *)
Definition raw_has_null (refs : list ustr) (r : rawrow) : bool :=
  existsb (fun k => match assoc k r with Some CNone | Some CNaN => true | _ => false end) refs.
Definition preprocess (na : list ustr) (refs : list ustr) (f : list rawrow) : frame :=
  drop_duplicates (map (null_to_text na) (filter (fun r => negb (row_has_null na refs r))
                                                 (map str_row (filter (fun r => negb (raw_has_null refs r)) f)))).

(* ---------------------------------------------------------------- readers ("arrival") *)
(* An abstract table: column names and rows of optional typed values.  vnull is the NULL of the property. *)
Inductive value := VNull | VStr (s : ustr) | VInt (z : Z) | VFloatI (z : Z) | VBool (b : bool).
Record table := { t_cols : list ustr; t_rows : list (list value) }.

Inductive skind := SCsv | SSqlTable | SSqlQuery | SColumnar | SJson | SXml | SView | SFrame.

Definition zip_row {A} (cols : list ustr) (vals : list A) : list (ustr * A) := combine cols vals.
Definition has_cols (cols refs : list ustr) : bool := forallb (fun r => mem r cols) refs.
Definition project {A} (refs : list ustr) (r : list (ustr * A)) : list (ustr * A) :=
  filter (fun kv => mem (fst kv) refs) r.

(* pandas column dtype inference for one column of an SQL result / JSON array (coerce_float=False):
   a column holding ints and a NULL or a float becomes float64; all-int stays int; anything with a string stays object *)
Definition col_has (p : value -> bool) (col : list value) : bool := existsb p col.
Definition is_int v := match v with VInt _ => true | _ => false end.
Definition is_flt v := match v with VFloatI _ => true | _ => false end.
Definition is_str v := match v with VStr _ => true | _ => false end.
Definition is_bool v := match v with VBool _ => true | _ => false end.
Definition is_null v := match v with VNull => true | _ => false end.
(* int -> float64: the nearest binary64 (values below 10^16 print in positional notation) *)
Definition to_float64 (z : Z) : Z :=
  match z with
  | Z0 => Z0
  | Zpos p => Z.of_N (trunc_round64 (Npos p) 1)
  | Zneg p => Z.opp (Z.of_N (trunc_round64 (Npos p) 1))
  end.
Definition coerce_cell (numeric_float : bool) (v : value) : cell :=
  match v with
  | VNull => if numeric_float then CNaN else CNone
  | VStr s => CStr s
  | VInt z => if numeric_float then CFloatI (to_float64 z) else CInt z
  | VFloatI z => CFloatI z
  | VBool b => CBool b
  end.
Definition col_numeric_float (col : list value) : bool :=
  negb (col_has is_str col) && negb (col_has is_bool col) && (col_has is_int col || col_has is_flt col)
  && (col_has is_null col || col_has is_flt col).
Definition column (i : nat) (rows : list (list value)) : list value :=
  flat_map (fun r => match nth_error r i with Some v => [v] | None => [] end) rows.
Definition coerce_rows (cols : list ustr) (rows : list (list value)) : list rawrow :=
  let flags := map (fun i => col_numeric_float (column i rows)) (seq 0 (length cols)) in
  map (fun r => zip_row cols (map (fun fv => coerce_cell (fst fv) (snd fv)) (combine flags r))) rows.

Definition value_is_null (v : value) : bool := is_null v.
Definition arrive (k : skind) (refs : list ustr) (t : table) : result (list rawrow) :=
  if negb (has_cols (t_cols t) refs) then Err EValue else
  match k with
  | SCsv =>
      (* dtype=str, na_filter=False: every cell is text, NULL cannot be told from the empty string.
         usecols=[] (a rule without any reference) gives a frame without rows *)
      match refs with [] => Ok [] | _ =>
      Ok (map (fun r => project refs (zip_row (t_cols t)
              (map (fun v => match v with VNull => CStr [] | VStr s => CStr s | VInt z => CStr (dec_of_Z z)
                                      | VFloatI z => CStr (dec_of_Z z ++ u ".0") | VBool true => CStr (u "True") | VBool false => CStr (u "False") end) r)))
              (t_rows t))
      end
  | SSqlTable =>
      (* SELECT refs FROM t WHERE every ref IS NOT NULL; then column coercion on what remains *)
      let idx := map (fun c => mem c refs) (t_cols t) in
      let keep := filter (fun r => negb (existsb (fun bv => fst bv && value_is_null (snd bv)) (combine idx r))) (t_rows t) in
      let proj_cols := filter (fun c => mem c refs) (t_cols t) in
      let proj_rows := map (fun r => map snd (filter (fun bv => fst bv) (combine idx r))) keep in
      Ok (coerce_rows proj_cols proj_rows)
  | SSqlQuery => Ok (coerce_rows (t_cols t) (t_rows t))
  | SColumnar => Ok (map (fun r => project refs r) (coerce_rows (t_cols t) (t_rows t)))
  | SJson =>
      let idx := map (fun c => mem c refs) (t_cols t) in
      let keep := filter (fun r => negb (existsb (fun bv => fst bv && value_is_null (snd bv)) (combine idx r))) (t_rows t) in
      Ok (map (fun r => project refs r) (coerce_rows (t_cols t) keep))
  | SXml =>
      (* ElementTree: an absent node and an empty node both end as a null cell; the empty string cannot be told from NULL *)
      Ok (map (fun r => project refs (zip_row (t_cols t)
              (map (fun v => match v with VNull => CNone | VStr [] => CNone | VStr s => CStr s | VInt z => CStr (dec_of_Z z)
                                      | VFloatI z => CStr (dec_of_Z z ++ u ".0") | VBool true => CStr (u "True") | VBool false => CStr (u "False") end) r)))
              (t_rows t))
  | SView =>
      (* DuckDB over a CSV file: an empty cell is NULL; all columns of the query are delivered (string columns only: a column
         DuckDB can read as a number, boolean or date is outside the model) *)
      Ok (map (fun r => zip_row (t_cols t)
              (map (fun v => match v with VNull => CNone | VStr [] => CNone | VStr s => CStr s | VInt z => CStr (dec_of_Z z)
                                      | VFloatI z => CStr (dec_of_Z z ++ u ".0") | VBool true => CStr (u "True") | VBool false => CStr (u "False") end) r))
              (t_rows t))
  | SFrame =>
      (* python_data.get_ram_data: every double quote is removed from the string cells of object columns *)
      Ok (map (fun r => project refs (map (fun kc => (fst kc, match snd kc with CStr s => CStr (filter (fun c => negb (c =? 34)) s) | c => c end)) r))
              (coerce_rows (t_cols t) (t_rows t)))
  end.
