(* Term construction from strings: materializer.py L91-175 (escaping chain, percent-encoding, canonicalisation,
   delimiters) and utils.py L131-136.  Definitions only. *)
From Coq Require Import String.
From Morph Require Import Base.UStr Gen.Tables.
Local Open Scope N_scope.

(* ---------------------------------------------------------------- literal escaping (L128 / L166), in code order *)
Definition escape_chain : list (N * ustr) :=
  [(92,[92;92]); (10,[92;110]); (9,[92;116]); (8,[92;98]); (12,[92;102]); (13,[92;114]); (34,[92;34]); (39,[92;39])].
Definition apply_chain (ch : list (N * ustr)) (s : ustr) : ustr :=
  fold_left (fun acc cr => replace1 (fst cr) (snd cr) acc) ch s.
Definition escape_lit := apply_chain escape_chain.
(* the intended character-wise map (N-Triples ECHAR) *)
Definition esc_char (x : N) : ustr :=
  if N.eqb x 92 then [92;92] else if N.eqb x 10 then [92;110] else if N.eqb x 9 then [92;116]
  else if N.eqb x 8 then [92;98] else if N.eqb x 12 then [92;102] else if N.eqb x 13 then [92;114]
  else if N.eqb x 34 then [92;34] else if N.eqb x 39 then [92;39] else [x].

(* ---------------------------------------------------------------- UTF-8 and percent-encoding (L111-116) *)
Definition utf8_enc1 (c : N) : list N :=
  if c <? 128 then [c]
  else if c <? 2048 then [192 + c / 64; 128 + c mod 64]
  else if c <? 65536 then [224 + c / 4096; 128 + (c / 64) mod 64; 128 + c mod 64]
  else [240 + c / 262144; 128 + (c / 4096) mod 64; 128 + (c / 64) mod 64; 128 + c mod 64].
Definition utf8_encode (s : ustr) : list N := flat_map utf8_enc1 s.
Definition hexd (n : N) : N := if n <? 10 then 48 + n else 55 + n.
Definition is_alpha (c : N) : bool := ((65 <=? c) && (c <=? 90)) || ((97 <=? c) && (c <=? 122)).
Definition unreserved (c : N) : bool := is_alpha c || is_digit c || (c =? 45) || (c =? 46) || (c =? 95) || (c =? 126).
Definition memN (c : N) (l : list N) : bool := existsb (N.eqb c) l.
Definition pct_byte (safe : list N) (b : N) : list N :=
  if (b <? 128) && (unreserved b || memN b safe) then [b] else [37; hexd (b / 16); hexd (b mod 16)].
(* safe = [] : falcon.uri.encode_value ; safe = cfg : urllib.parse.quote(x, safe=cfg) *)
Definition pct_encode (safe : list N) (s : ustr) : ustr := flat_map (pct_byte safe) (utf8_encode s).

(* decoding, for the round-trip statements *)
Definition unhex (c : N) : option N :=
  if is_digit c then Some (c - 48) else if (65 <=? c) && (c <=? 70) then Some (c - 55)
  else if (97 <=? c) && (c <=? 102) then Some (c - 87) else None.
Fixpoint pct_decode (s : list N) : option (list N) :=
  match s with
  | [] => Some []
  | c :: r =>
      if c =? 37 then
        match r with
        | h :: l :: r' =>
            match unhex h, unhex l, pct_decode r' with
            | Some a, Some b, Some d => Some (a * 16 + b :: d)
            | _, _, _ => None
            end
        | _ => None
        end
      else option_map (cons c) (pct_decode r)
  end.

(* ---------------------------------------------------------------- only_printable_chars (utils.py L131-136) *)
Fixpoint in_ranges (c : N) (rs : list (N * N)) : bool :=
  match rs with [] => false | (a, b) :: r => ((a <=? c) && (c <=? b)) || in_ranges c r end.
Definition printable (c : N) : bool := negb (in_ranges c Tables.nonprintable_ranges).
Definition remove_non_printable (s : ustr) : ustr := filter printable s.

(* ---------------------------------------------------------------- canonicalisation (L117-125, L156-164) *)
Inductive cres := COk (s : ustr) | CErr | CUnmodelled.

(* lexical subset of Python's float(): ws* [+-]? (digits [. digits*]? | . digits) ([eE][+-]?digits)? ws*  *)
Fixpoint take_digits (s : ustr) (acc : ustr) : ustr * ustr :=
  match s with
  | c :: r => if is_digit c then take_digits r (c :: acc) else (rev acc, s)
  | [] => (rev acc, [])
  end.
Definition digits_val (d : ustr) : N := fold_left (fun a c => a * 10 + (c - 48)) d 0.
Record flex := { f_neg : bool; f_int : ustr; f_frac : ustr; f_eneg : bool; f_exp : ustr }.
Definition parse_float_lex (s0 : ustr) : option flex :=
  let s := strip s0 in
  let '(neg, s1) := match s with 45 :: r => (true, r) | 43 :: r => (false, r) | _ => (false, s) end in
  let '(ip, s2) := take_digits s1 [] in
  let '(fp, s3, dot) := match s2 with 46 :: r => let '(f, r') := take_digits r [] in (f, r', true) | _ => ([], s2, false) end in
  match ip, fp with
  | [], [] => None
  | _, _ =>
      match s3 with
      | [] => Some {| f_neg := neg; f_int := ip; f_frac := fp; f_eneg := false; f_exp := [] |}
      | e :: r =>
          if (e =? 101) || (e =? 69) then
            let '(eneg, r1) := match r with 45 :: r' => (true, r') | 43 :: r' => (false, r') | _ => (false, r) end in
            let '(ed, r2) := take_digits r1 [] in
            match ed, r2 with
            | _ :: _, [] => Some {| f_neg := neg; f_int := ip; f_frac := fp; f_eneg := eneg; f_exp := ed |}
            | _, _ => None
            end
          else None
      end
  end.
(* does the string use only characters of the modelled subset? (digits, sign, dot, e/E, ASCII whitespace) *)
Definition float_charset (c : N) : bool :=
  is_digit c || (c =? 43) || (c =? 45) || (c =? 46) || (c =? 101) || (c =? 69) || is_ws c.

(* round-half-even quotient x / y *)
Definition rne_div (x y : N) : N :=
  let d := x / y in let r := x mod y in
  if 2 * r <? y then d else if y <? 2 * r then d + 1 else if N.even d then d else d + 1.
(* truncation of the binary64 nearest to the positive rational a / b  (b > 0) *)
Definition trunc_round64 (a b : N) : N :=
  let q := a / b in
  if q =? 0 then
    (* a/b < 1 : the result is 1 iff a/b >= 1 - 2^-54 *)
    if (2 ^ 54 - 1) * b <=? a * 2 ^ 54 then 1 else 0
  else
    let l := N.log2 q in
    if 52 <? l then let e := l - 52 in rne_div a (b * 2 ^ e) * 2 ^ e
    else let e := 52 - l in rne_div (a * 2 ^ e) b / 2 ^ e.
Definition pow10 (n : N) : N := 10 ^ n.
Definition int64_wrap (neg : bool) (v : N) : Z :=
  if 2 ^ 63 <=? v then (- 2 ^ 63)%Z else if neg then (- Z.of_N v)%Z else Z.of_N v.
(* str(int(float(s))) as pandas/NumPy compute it *)
Definition canon_integer (s : ustr) : cres :=
  if negb (forallb float_charset s) then
    (* letters, underscores, other alphabets: float() raises for most, accepts some (inf, nan, 1_0, fullwidth digits) *)
    if forallb (fun c => (c <? 128) && negb (c =? 95) && negb (is_ws c)) s
       && negb (existsb (fun w => ueqb (lower (strip s)) w)
                  [u "inf"; u "+inf"; u "-inf"; u "nan"; u "+nan"; u "-nan"; u "infinity"; u "+infinity"; u "-infinity"])
    then CErr else CUnmodelled
  else
  match parse_float_lex s with
  | None => CErr
  | Some f =>
      let ev := digits_val (f_exp f) in
      if 400 <? ev then CUnmodelled else
      let m := digits_val (f_int f ++ f_frac f) in
      let k := N.of_nat (length (f_frac f)) in      (* value = m * 10^(+-ev) / 10^k *)
      let '(a, b) := if f_eneg f then (m, pow10 (k + ev)) else (m * pow10 ev, pow10 k) in
      (* beyond the largest binary64 (plus half an ulp) float() gives inf and the cast to int raises *)
      if (2 ^ 1024 - 2 ^ 970) * b <=? a then CErr else
      COk (dec_of_Z (int64_wrap (f_neg f) (trunc_round64 a b)))
  end.

Definition canon (datatype : ustr) (s : ustr) : cres :=
  if ueqb datatype Tables.c_xsd_boolean then
    (* str.lower(): modelled on ASCII; other cased letters (e.g. U+0130) are left to the oracle *)
    (if forallb (fun c => c <? 128) s then COk (lower s) else CUnmodelled)
  else if ueqb datatype Tables.c_xsd_datetime then COk (replace1 32 [84] s)
  else if ueqb datatype Tables.c_xsd_integer then canon_integer s
  else COk s.

(* ---------------------------------------------------------------- term types and delimiters (L137-145, L167-173) *)
Inductive ttype := TIri | TBnode | TLit | TStar | TNone.
Definition delimit (tt : ttype) (body : ustr) : ustr :=
  match tt with
  | TIri => 60 :: body ++ [62]
  | TBnode => 95 :: 58 :: body
  | TLit => 34 :: body ++ [34]
  | _ => body
  end.

(* UTF-8 decoding (lenient about continuation bytes; used for the round-trip statement only) *)
Fixpoint utf8_decode (s : list N) : option ustr :=
  match s with
  | [] => Some []
  | b1 :: r1 =>
      if b1 <? 128 then option_map (cons b1) (utf8_decode r1)
      else if b1 <? 224 then
        match r1 with b2 :: r2 => option_map (cons ((b1 - 192) * 64 + (b2 - 128))) (utf8_decode r2) | _ => None end
      else if b1 <? 240 then
        match r1 with
        | b2 :: b3 :: r3 => option_map (cons ((b1 - 224) * 4096 + (b2 - 128) * 64 + (b3 - 128))) (utf8_decode r3)
        | _ => None
        end
      else
        match r1 with
        | b2 :: b3 :: b4 :: r4 =>
            option_map (cons ((b1 - 240) * 262144 + (b2 - 128) * 4096 + (b3 - 128) * 64 + (b4 - 128))) (utf8_decode r4)
        | _ => None
        end
  end.
