(* mapping_partitioner.py: term invariants, PARTIAL-AGGREGATIONS and MAXIMAL labelling.  Definitions only. *)
From Coq Require Import String.
From Morph Require Import Base.UStr Gen.Tables Model.Terms Model.Data Model.Engine.
Local Open Scope N_scope.

(* get_invariant_of_template: the text before the first unescaped '{'; None = the code raises *)
Definition invariant_of_template (t : ustr) : option ustr :=
  let t1 := replace_all esc_open aux t in
  if memN 123 t1 then Some (replace_all aux esc_open (hd [] (split_on [123] t1))) else None.

(* _get_term_invariants, one position *)
Definition invariant_of (k : mkind) (v : ustr) : option ustr :=
  match k with
  | KConst => Some v
  | KTempl => invariant_of_template v
  | _ => Some []
  end.
Record keyed := { k_rule : rule; k_si : ustr; k_pi : ustr; k_oi : ustr; k_gi : ustr; k_lt : option ustr }.

Definition ld_kind_iri (k : ldkind) : option ustr :=
  match k with LDNone => None | LDLang => Some Tables.c_rml_language_map | LDDt => Some Tables.c_rml_datatype_map end.
Definition any_dynamic_ld (rules : list rule) : bool :=
  existsb (fun r => match r_ldk r with KRef | KTempl => true | _ => false end) rules.
Definition literal_type (dynamic : bool) (r : rule) : option ustr :=
  if dynamic then ld_kind_iri (r_ld r) else match r_ld r with LDNone => None | _ => Some (r_ldv r) end.

Definition keys_of (rules : list rule) (r : rule) : option keyed :=
  let oinv := match r_ok r with
              | KParent => match find_rule rules (r_ov r) with
                           | Some p => match r_sk p with KConst | KTempl => invariant_of (r_sk p) (r_sv p) | _ => Some [] end
                           | None => None
                           end
              | k => invariant_of k (r_ov r)
              end in
  match invariant_of (r_sk r) (r_sv r), invariant_of (r_pk r) (r_pv r), oinv, invariant_of (r_gk r) (r_gv r) with
  | Some s, Some p, Some o, Some g =>
      Some {| k_rule := r; k_si := s; k_pi := p; k_oi := o; k_gi := g; k_lt := literal_type (any_dynamic_ld rules) r |}
  | _, _, _, _ => None
  end.
Fixpoint all_some {A} (l : list (option A)) : option (list A) :=
  match l with
  | [] => Some []
  | Some x :: r => match all_some r with Some xs => Some (x :: xs) | None => None end
  | None :: _ => None
  end.

(* ---- stable insertion sort by a boolean order *)
Section Sort.
  Context {A : Type} (lebA : A -> A -> bool).
  Fixpoint insert (x : A) (l : list A) : list A :=
    match l with
    | [] => [x]
    | y :: r => if lebA x y then x :: l else y :: insert x r
    end.
  (* stable: fold from the right, insert before equal elements that came later *)
  Definition isort (l : list A) : list A := fold_right insert [] l.
End Sort.

(* Python order with NaN/None last *)
Definition oleb (a b : option ustr) : bool :=
  match a, b with
  | Some x, Some y => leb x y
  | Some _, None => true
  | None, Some _ => false
  | None, None => true
  end.
Definition ttype_name (t : ttype) : option ustr :=
  match t with
  | TIri => Some Tables.c_rml_iri | TBnode => Some Tables.c_rml_blank_node | TLit => Some Tables.c_rml_literal
  | TStar => Some Tables.c_rml_rdf_star_triple | TNone => None
  end.
Definition oeqb (a b : option ustr) : bool :=
  match a, b with Some x, Some y => ueqb x y | None, None => true | _, _ => false end.
(* lexicographic (object_termtype, literal_type, object_invariant) *)
Definition obj_leb (a b : keyed) : bool :=
  let ta := ttype_name (r_ott (k_rule a)) in let tb := ttype_name (r_ott (k_rule b)) in
  if oeqb ta tb then
    if oeqb (k_lt a) (k_lt b) then leb (k_oi a) (k_oi b) else oleb (k_lt a) (k_lt b)
  else oleb ta tb.

(* ---- the scans.  Each returns the group number of every element, in the order of the (sorted) input. *)
(* head-prefix scan; blank nodes (flag) go to group 0 and do not touch the state.  The first head is the reserved
   string, which no invariant extends, so the first non-blank element opens group 1. *)
Fixpoint scan_prefix (g : nat) (h : option ustr) (l : list (bool * ustr)) : list nat :=
  match l with
  | [] => []
  | (true, _) :: r => O :: scan_prefix g h r
  | (false, k) :: r =>
      if match h with Some h' => prefixb h' k | None => false end then g :: scan_prefix g h r
      else S g :: scan_prefix (S g) (Some k) r
  end.
Fixpoint scan_eq (g : nat) (h : option ustr) (l : list ustr) : list nat :=
  match l with
  | [] => []
  | k :: r =>
      if match h with Some h' => ueqb h' k | None => false end then g :: scan_eq g h r
      else S g :: scan_eq (S g) (Some k) r
  end.
(* object scan: blank nodes -> 0; literals by literal type; others by head prefix; one shared counter *)
Definition lt_str (x : option ustr) : ustr := match x with Some s => s | None => u "nan" end.
Fixpoint scan_obj (g : nat) (hl : option ustr) (hi : option ustr) (l : list keyed) : list nat :=
  match l with
  | [] => []
  | k :: r =>
      match r_ott (k_rule k) with
      | TBnode => O :: scan_obj g hl hi r
      | TLit =>
          if match hl with Some x => ueqb x (lt_str (k_lt k)) | None => false end then g :: scan_obj g hl hi r
          else S g :: scan_obj (S g) (Some (lt_str (k_lt k))) hi r
      | _ =>
          if match hi with Some h' => prefixb h' (k_oi k) | None => false end then g :: scan_obj g hl hi r
          else S g :: scan_obj (S g) hl (Some (k_oi k)) r
      end
  end.

Definition is_bnode (t : ttype) : bool := match t with TBnode => true | _ => false end.
Definition all_const (f : rule -> mkind) (ks : list keyed) : bool := forallb (fun k => mkind_eqb (f (k_rule k)) KConst) ks.

(* one position over one list of rules: returns (rule id, group) *)
Inductive position := PS | PP | PO | PG.
Definition scan_position (pconst gconst : bool) (p : position) (ks : list keyed) : list (ustr * nat) :=
  match p with
  | PS => let s := isort (fun a b => leb (k_si a) (k_si b)) ks in
          combine (map (fun k => r_id (k_rule k)) s) (scan_prefix 0 None (map (fun k => (is_bnode (r_stt (k_rule k)), k_si k)) s))
  | PP => let s := isort (fun a b => leb (k_pi a) (k_pi b)) ks in
          combine (map (fun k => r_id (k_rule k)) s)
                  (if pconst then scan_eq 0 None (map k_pi s) else scan_prefix 0 None (map (fun k => (false, k_pi k)) s))
  | PO => let s := isort obj_leb ks in
          combine (map (fun k => r_id (k_rule k)) s) (scan_obj 0 None None s)
  | PG => let s := isort (fun a b => leb (k_gi a) (k_gi b)) ks in
          combine (map (fun k => r_id (k_rule k)) s)
                  (if gconst then scan_eq 0 None (map k_gi s) else scan_prefix 0 None (map (fun k => (false, k_gi k)) s))
  end.
Definition group_of (labs : list (ustr * nat)) (id : ustr) : nat := match assoc id labs with Some g => g | None => O end.

(* PARTIAL-AGGREGATIONS: four independent scans, aggregated *)
Definition label := list nat.
Definition pa_labels (rules : list rule) : option (list (ustr * label)) :=
  match all_some (map (keys_of rules) rules) with
  | None => None
  | Some ks =>
      let pc := all_const r_pk ks in let gc := all_const r_gk ks in
      let s := scan_position pc gc PS ks in let p := scan_position pc gc PP ks in
      let o := scan_position pc gc PO ks in let g := scan_position pc gc PG ks in
      Some (map (fun r => (r_id r, [group_of s (r_id r); group_of p (r_id r); group_of o (r_id r); group_of g (r_id r)])) rules)
  end.

(* MAXIMAL: nested refinement along a position ordering *)
Definition label_eqb (a b : label) : bool := if list_eq_dec Nat.eq_dec a b then true else false.
Definition distinct_labels (l : list label) : list label :=
  fold_right (fun x acc => if existsb (label_eqb x) acc then acc else x :: acc) [] l.
Definition refine (pc gc : bool) (p : position) (cur : list (keyed * label)) : list (keyed * label) :=
  let groups := distinct_labels (map snd cur) in
  flat_map (fun gl =>
    let members := filter (fun kl => label_eqb (snd kl) gl) cur in
    let labs := scan_position pc gc p (map fst members) in
    map (fun kl => (fst kl, snd kl ++ [group_of labs (r_id (k_rule (fst kl)))])) members) groups.
Definition max_labels_for (rules : list rule) (ord : list position) : option (list (ustr * label)) :=
  match all_some (map (keys_of rules) rules) with
  | None => None
  | Some ks =>
      let pc := all_const r_pk ks in let gc := all_const r_gk ks in
      let fin := fold_left (fun cur p => refine pc gc p cur) ord (map (fun k => (k, [])) ks) in
      Some (map (fun kl => (r_id (k_rule (fst kl)), snd kl)) fin)
  end.
Fixpoint perms {A} (l : list A) (fuel : nat) : list (list A) :=
  match fuel with
  | O => [[]]
  | S f =>
      match l with
      | [] => [[]]
      | _ => flat_map (fun i => match nth_error l i with
                                | Some x => map (cons x) (perms (firstn i l ++ skipn (S i) l) f)
                                | None => []
                                end) (seq 0 (length l))
      end
  end.
Definition orderings : list (list position) := perms [PS; PP; PO; PG] 4.
Definition n_groups (labs : list (ustr * label)) : nat := length (distinct_labels (map snd labs)).
(* "largest number of groups wins, first ordering on ties" *)
Definition max_labels (rules : list rule) : option (list (ustr * label)) :=
  fold_left (fun best ord =>
    match max_labels_for rules ord, best with
    | Some l, Some b => if Nat.ltb (n_groups b) (n_groups l) then Some l else Some b
    | Some l, None => Some l
    | None, _ => None
    end) orderings None.


(* ---- the pairwise criterion: when is it safe to put two rules into different groups?  At some position the two term
   maps can never produce the same term, whatever the data (Proofs/SeparableP.v).  N-TRIPLES lines do not show the graph,
   so a difference at the graph position separates nothing there. *)
Definition incomparable (a b : ustr) : bool := negb (prefixb a b) && negb (prefixb b a).
Definition ttype_eq (a b : ttype) : bool :=
  match a, b with TIri, TIri | TBnode, TBnode | TLit, TLit | TStar, TStar | TNone, TNone => true | _, _ => false end.
Definition sep_subject (a b : keyed) : bool :=
  let ta := r_stt (k_rule a) in let tb := r_stt (k_rule b) in
  (negb (ttype_eq ta tb) && (is_bnode ta || is_bnode tb)) || (negb (is_bnode ta) && negb (is_bnode tb) && incomparable (k_si a) (k_si b)).
(* two constant-valued maps with different values never agree; otherwise the constant prefixes must be incomparable *)
Definition sep_maps (ka : mkind) (va : ustr) (kb : mkind) (vb : ustr) (ia ib : ustr) : bool :=
  (mkind_eqb ka KConst && mkind_eqb kb KConst && negb (ueqb va vb)) || incomparable ia ib.
Definition sep_predicate (a b : keyed) : bool :=
  sep_maps (r_pk (k_rule a)) (r_pv (k_rule a)) (r_pk (k_rule b)) (r_pv (k_rule b)) (k_pi a) (k_pi b).
Definition is_lit (t : ttype) : bool := match t with TLit => true | _ => false end.
Definition sep_object (a b : keyed) : bool :=
  let ta := r_ott (k_rule a) in let tb := r_ott (k_rule b) in
  if is_bnode ta || is_bnode tb then negb (ttype_eq ta tb)
  else if is_lit ta || is_lit tb then negb (ttype_eq ta tb) || negb (ueqb (lt_str (k_lt a)) (lt_str (k_lt b)))
  else incomparable (k_oi a) (k_oi b).
Definition sep_graph (a b : keyed) : bool :=
  sep_maps (r_gk (k_rule a)) (r_gv (k_rule a)) (r_gk (k_rule b)) (r_gv (k_rule b)) (k_gi a) (k_gi b).
Definition separable (nquads : bool) (a b : keyed) : bool :=
  sep_subject a b || sep_predicate a b || sep_object a b || (nquads && sep_graph a b).
(* all pairs (i, j, separable) of a rule table, for the correspondence *)
Definition sep_matrix (nquads : bool) (rules : list rule) : option (list (ustr * ustr * bool)) :=
  match all_some (map (keys_of rules) rules) with
  | None => None
  | Some ks => Some (flat_map (fun a => map (fun b => (r_id (k_rule a), r_id (k_rule b), separable nquads a b)) ks) ks)
  end.
