(* Model of relational_db.py `_get_column_table_datatype` (lookup part) and of mapping_parser.py `_infer_datatypes` guard. *)
From Morph Require Import Base.UStr.
Local Open Scope N_scope.

(* stable insertion sort by key length, longest first: Python `sorted(items, key=lambda kv: -len(kv[0]))` *)
Fixpoint ins_len (kv : ustr * ustr) (l : list (ustr * ustr)) : list (ustr * ustr) :=
  match l with
  | [] => [kv]
  | h :: r => if Nat.leb (length (fst h)) (length (fst kv)) then kv :: l else h :: ins_len kv r
  end.
Definition sort_len_desc (l : list (ustr * ustr)) : list (ustr * ustr) := fold_right ins_len [] l.

(* the code: upper-case the catalogue answer, return the value of the first key (in the iteration order of the code)
   that occurs in it as a substring *)
Definition lookup_in_order (tbl : list (ustr * ustr)) (t : ustr) : option ustr :=
  let T := upper t in
  option_map snd (find (fun kv => contains (fst kv) T) tbl).

(* iteration order of the current code: `sorted(items, key=len(key), reverse=True)` -- longest key first, ties in the
   dict's own order (Python's sort is stable, also under reverse=True) *)
Definition lookup (tbl : list (ustr * ustr)) (t : ustr) : option ustr := lookup_in_order (sort_len_desc tbl) t.

(* _infer_datatypes: the guard deciding whether an inferred datatype is attached to a rule.
   is_rdb, object term type is literal, no language/datatype given, object map is a reference *)
Definition infer_applies (enabled is_rdb obj_is_literal has_langdt obj_is_reference : bool) : bool :=
  enabled && is_rdb && obj_is_literal && negb has_langdt && obj_is_reference.
Definition inferred_datatype (enabled is_rdb obj_is_literal has_langdt obj_is_reference : bool)
           (explicit : option ustr) (catalogue : option ustr) : option ustr :=
  if infer_applies enabled is_rdb obj_is_literal has_langdt obj_is_reference then
    match catalogue with Some d => Some d | None => explicit end
  else explicit.
