(* The materializer as it is written: materializer.py L66-337, utils.py L98-128 / L207-218.
   Row-wise reading of the vectorised code; working columns are written into the row exactly where the code assigns
   DataFrame columns, so a working column can shadow a data column, as in the code.  Definitions only. *)
From Coq Require Import String.
From Morph Require Import Base.UStr Gen.Tables Model.Terms Model.Data.
Local Open Scope N_scope.

Inductive mkind := KConst | KTempl | KRef | KQuoted | KParent | KExec | KNone.
Inductive ldkind := LDNone | LDLang | LDDt.
Definition mkind_eqb (a b : mkind) : bool :=
  match a, b with
  | KConst, KConst | KTempl, KTempl | KRef, KRef | KQuoted, KQuoted | KParent, KParent | KExec, KExec | KNone, KNone => true
  | _, _ => false
  end.

(* one row of rml_df (after normalisation) *)
Record rule := {
  r_id : ustr;            (* triples_map_id after renumbering (unique per rule) *)
  r_tm : ustr;            (* triples map it was normalised from *)
  r_src : ustr;           (* key of the logical source *)
  r_asserted : bool;      (* triples_map_type == rml:TriplesMap *)
  r_sk : mkind; r_sv : ustr; r_stt : ttype;
  r_pk : mkind; r_pv : ustr;
  r_ok : mkind; r_ov : ustr; r_ott : ttype;
  r_ld : ldkind; r_ldk : mkind; r_ldv : ustr;
  r_gk : mkind; r_gv : ustr;
  r_sjoin : list (ustr * ustr);      (* (child, parent) pairs; [] = no join condition *)
  r_ojoin : list (ustr * ustr)
}.

Record ecfg := { c_nquads : bool; c_printable : bool; c_safe : ustr; c_na : list ustr }.

(* ---------------------------------------------------------------- utils.get_references_in_template *)
(* re.findall('\\{([^}]+)', t) as a structural automaton: cur = Some acc while inside a reference *)
Fixpoint find_refs (s : ustr) (cur : option ustr) : list ustr :=
  match s with
  | [] => match cur with Some (_ :: _ as acc) => [rev acc] | _ => [] end
  | c :: r =>
      match cur with
      | None => if c =? 123 then find_refs r (Some []) else find_refs r None
      | Some acc =>
          if c =? 125 then match acc with [] => find_refs r None | _ => rev acc :: find_refs r None end
          else find_refs r (Some (c :: acc))
      end
  end.
Definition esc_open : ustr := [92; 123].    (* \{ *)
Definition esc_close : ustr := [92; 125].   (* \} *)
Definition aux := Tables.c_auxiliar_unique_replacing_string.
Definition refs_in_template (t : ustr) : list ustr :=
  let t1 := replace_all esc_close aux (replace_all esc_open aux t) in
  map (fun r => replace_all aux esc_open r) (find_refs t1 None).

Definition joins_child (j : list (ustr * ustr)) := map fst j.
Definition joins_parent (j : list (ustr * ustr)) := map snd j.

Definition find_rule (rules : list rule) (id : ustr) : option rule := find (fun r => ueqb (r_id r) id) rules.

(* materializer._get_references_in_rml_rule (function executions are not part of this model: EUnmodelled upstream) *)
(* one row of fnml_df per input of an execution (or a single row without parameter for a function of no arguments) *)
Record fexec := { fe_id : ustr; fe_fun : ustr; fe_param : ustr; fe_kind : mkind; fe_value : ustr }.
Definition exec_rows_of (ftable : list fexec) (eid : ustr) : list fexec := filter (fun e => ueqb (fe_id e) eid) ftable.
Definition fnml_fuel (ftable : list fexec) : nat := S (length ftable).
(* utils.get_references_in_fnml_execution; refs_in_template is defined just above *)
Section Refs.
Variable ftable : list fexec.
Fixpoint exec_refs (fuel : nat) (eid : ustr) : list ustr :=
  match fuel with
  | O => []
  | S f => flat_map (fun e => match fe_kind e with
                              | KTempl => refs_in_template (fe_value e)
                              | KRef => [fe_value e]
                              | KExec => exec_refs f (fe_value e)
                              | _ => []
                              end) (exec_rows_of ftable eid)
  end.
Definition pos_refs (k : mkind) (v : ustr) : list ustr :=
  match k with KTempl => refs_in_template v | KRef => [v] | KExec => exec_refs (fnml_fuel ftable) v | _ => [] end.
Fixpoint rule_refs (fuel : nat) (rules : list rule) (only_subject : bool) (r : rule) : list ustr :=
  match fuel with
  | O => []
  | S f =>
      let base := if only_subject then pos_refs (r_sk r) (r_sv r)
                  else pos_refs (r_sk r) (r_sv r) ++ pos_refs (r_pk r) (r_pv r) ++ pos_refs (r_ok r) (r_ov r)
                       ++ pos_refs (r_gk r) (r_gv r) ++ pos_refs (r_ldk r) (r_ldv r) in
      let quoted k v j := match k, j with
                          | KQuoted, [] => match find_rule rules v with Some p => rule_refs f rules false p | None => [] end
                          | _, _ => []
                          end in
      base ++ quoted (r_sk r) (r_sv r) (r_sjoin r) ++ joins_child (r_sjoin r)
           ++ (if only_subject then [] else quoted (r_ok r) (r_ov r) (r_ojoin r) ++ joins_child (r_ojoin r))
  end.

End Refs.

(* ---------------------------------------------------------------- materializer._materialize_template *)
Definition col_subject := u "subject". Definition col_predicate := u "predicate". Definition col_object := u "object".
Definition col_graph := u "graph". Definition col_ld := u "lang_datatype". Definition col_triple := u "triple".
Definition col_refres := u "reference_results". Definition col_parent_triple := u "parent_triple".
Definition parent_prefix := u "parent_".

Definition unescape_braces (t : ustr) : ustr := replace_all esc_close [125] (replace_all esc_open [123] t).

(* the per-reference value transformation *)
Definition transform_value (cfg : ecfg) (k : mkind) (tt : ttype) (datatype : ustr) (v : ustr) : result ustr :=
  let v1 := if c_printable cfg then remove_non_printable v else v in
  match tt with
  | TIri => match k with
            | KTempl => Ok (pct_encode (c_safe cfg) v1)
            | _ => Ok v1
            end
  | TLit => match canon datatype v1 with
            | COk s => Ok (escape_lit s)
            | CErr => Err EValue
            | CUnmodelled => Err EUnmodelled
            end
  | _ => Ok v1
  end.

(* loop over the references, in regex order.  State: the remaining template text and the row. *)
Fixpoint template_loop (cfg : ecfg) (k : mkind) (tt : ttype) (datatype alias pos : ustr) (refs : list ustr)
         (template : ustr) (r : row) : result (ustr * row) :=
  match refs with
  | [] => Ok (template, r)
  | ref :: rest =>
      match rget (alias ++ ref) r with
      | None => Err EKey
      | Some v0 =>
          let r1 := rset col_refres v0 r in
          rdo v <- transform_value cfg k tt datatype v0;
          let r2 := rset col_refres v r1 in
          let pat := 123 :: ref ++ [125] in
          let parts := split_on pat template in
          let cur := match rget pos r2 with Some x => x | None => [] end in
          let r3 := rset pos (cur ++ hd [] parts ++ v) r2 in
          template_loop cfg k tt datatype alias pos rest (join pat (tl parts)) r3
      end
  end.

Definition mat_template (cfg : ecfg) (value : ustr) (k : mkind) (pos alias : ustr) (tt : ttype) (datatype : ustr)
           (r : row) : result row :=
  let template0 := match k with KRef => 123 :: value ++ [125] | _ => value end in
  let refs := refs_in_template template0 in
  let template := unescape_braces template0 in
  let r0 := rset pos [] r in
  rdo tr <- template_loop cfg k tt datatype alias pos refs template r0;
  let '(rest, r1) := tr in
  let cur := match rget pos r1 with Some x => x | None => [] end in
  Ok (rset pos (delimit tt (cur ++ rest)) r1).


(* ---------------------------------------------------------------- FNML: fnml_executer.py L44-122 *)
Inductive fres := FNull | FStr (s : ustr) | FList (l : list ustr) | FRaise | FUnmod.
(* _materialize_fnml_template: the template loop without any value transformation, on the auxiliary column *)
Definition col_aux_fnml := u "aux_fnml_template_data".
Fixpoint fnml_template_loop (refs : list ustr) (template : ustr) (r : row) : result (ustr * row) :=
  match refs with
  | [] => Ok (template, r)
  | ref :: rest =>
      match rget ref r with
      | None => Err EKey
      | Some v =>
          let r1 := rset col_refres v r in
          let pat := 123 :: ref ++ [125] in
          let parts := split_on pat template in
          let cur := match rget col_aux_fnml r1 with Some x => x | None => [] end in
          fnml_template_loop rest (join pat (tl parts)) (rset col_aux_fnml (cur ++ hd [] parts ++ v) r1)
      end
  end.
Definition fnml_template (t : ustr) (r : row) : result (ustr * row) :=
  let r0 := rset col_aux_fnml [] r in
  rdo tr <- fnml_template_loop (refs_in_template t) (unescape_braces t) r0;
  let '(rest, r1) := tr in
  let v := (match rget col_aux_fnml r1 with Some x => x | None => [] end) ++ rest in
  Ok (v, rset col_aux_fnml v r1).

Section Fnml.
  Variable na : list ustr.
  (* the function registry: decorator parameters (python name, parameter IRI) in declaration order, and the function *)
  Variable fparams : ustr -> option (list (ustr * ustr)).
  Variable fapply : ustr -> list (ustr * ustr) -> fres.
  Variable ftable : list fexec.

  Definition exec_rows (eid : ustr) : list fexec := exec_rows_of ftable eid.
  (* dict(zip(parameter_map_value, ...)): the last row of a parameter wins *)
  Definition param_binding (rows : list fexec) (piri : ustr) : option (mkind * ustr) :=
    match filter (fun e => ueqb (fe_param e) piri) rows with
    | [] => None
    | l => let e := last l (hd {| fe_id := []; fe_fun := []; fe_param := []; fe_kind := KNone; fe_value := [] |} l) in Some (fe_kind e, fe_value e)
    end.
  Fixpoint bind_args (rows : list fexec) (ps : list (ustr * ustr)) (r : row) : result (list (ustr * ustr) * row) :=
    match ps with
    | [] => Ok ([], r)
    | (name, piri) :: rest =>
        match param_binding rows piri with
        | None => bind_args rows rest r                   (* optional parameter not given *)
        | Some (k, v) =>
            rdo vr <- (match k with
                       | KConst => Ok (v, r)
                       | KTempl => fnml_template v r
                       | _ => match rget v r with Some x => Ok (x, r) | None => Err EKey end
                       end);
            rdo br <- bind_args rows rest (snd vr);
            Ok ((name, fst vr) :: fst br, snd br)
        end
    end.
  (* execute_fnml on one row: inner executions first (each may multiply or drop the row), then the call, null removal, explode *)
  Fixpoint exec_fnml (fuel : nat) (eid : ustr) (r : row) : result (list row) :=
    match fuel with
    | O => Err EFuel
    | S f =>
        let rows := exec_rows eid in
        match rows with
        | [] => Err EOther
        | e0 :: _ =>
            rdo inner <- fold_left (fun acc e =>
                            match fe_kind e with
                            | KExec => rdo rs <- acc; rdo nested <- rmap_all (exec_fnml f (fe_value e)) rs; Ok (concat nested)
                            | _ => acc
                            end) rows (Ok [r]);
            match fparams (fe_fun e0) with
            | None => Err EKey
            | Some ps =>
                rdo outs <- rmap_all (fun r1 =>
                  rdo ar <- bind_args rows ps r1;
                  match fapply (fe_fun e0) (fst ar) with
                  | FRaise => Err EOther
                  | FUnmod => Err EUnmodelled
                  | FNull => Ok []
                  | FStr s => if mem s na then Ok [] else Ok [rset eid s (snd ar)]
                  | FList l => Ok (map (fun x => rset eid x (snd ar)) l)
                  end) inner;
                Ok (concat outs)
            end
        end
    end.
End Fnml.

(* _materialize_fnml_execution *)
Record fenv := { fn_params : ustr -> option (list (ustr * ustr)); fn_apply : ustr -> list (ustr * ustr) -> fres; fn_table : list fexec }.
Definition mat_exec (cfg : ecfg) (fe : fenv) (eid pos : ustr) (tt : ttype) (datatype : ustr) (r : row) : result (list row) :=
  rdo rs <- exec_fnml (c_na cfg) (fn_params fe) (fn_apply fe) (fn_table fe) (fnml_fuel (fn_table fe)) eid r;
  rmap_all (fun r1 =>
    match rget eid r1 with
    | None => Err EKey
    | Some v0 =>
        let v1 := if c_printable cfg then remove_non_printable v0 else v0 in
        match tt with
        | TLit => match canon datatype v1 with
                  | COk s => let e := escape_lit s in Ok (rset pos (34 :: e ++ [34]) (rset eid e r1))
                  | CErr => Err EValue
                  | CUnmodelled => Err EUnmodelled
                  end
        | TIri => let s := strip v1 in Ok (rset pos (60 :: s ++ [62]) (rset eid s r1))
        | TBnode => Ok (rset pos (95 :: 58 :: v1) (rset eid v1 r1))
        | _ => Ok (rset eid v1 r1)
        end
    end) rs.

(* ---------------------------------------------------------------- _materialize_rml_rule_terms *)
Definition is_plain (k : mkind) : bool := match k with KTempl | KConst | KRef => true | _ => false end.
Definition lift1 (f : row -> result row) (rs : list row) : result (list row) := rmap_all f rs.
Definition bindl (x : result (list row)) (f : row -> result (list row)) : result (list row) :=
  rdo rs <- x; rdo ls <- rmap_all f rs; Ok (concat ls).
Definition mat_pos (cfg : ecfg) (fe : fenv) (k : mkind) (v : ustr) (pos alias : ustr) (tt : ttype) (dt : ustr) (r : row) : result (list row) :=
  if is_plain k then rdo r' <- mat_template cfg v k pos alias tt dt r; Ok [r']
  else match k with KExec => mat_exec cfg fe v pos tt dt r | _ => Ok [r] end.
Definition mat_terms (cfg : ecfg) (fe : fenv) (rl : rule) (alias : ustr) (r : row) : result (list row) :=
  bindl (bindl (bindl (mat_pos cfg fe (r_sk rl) (r_sv rl) col_subject [] (r_stt rl) [] r)
                      (mat_pos cfg fe (r_pk rl) (r_pv rl) col_predicate [] TIri []))
               (mat_pos cfg fe (r_ok rl) (r_ov rl) col_object alias (r_ott rl) (r_ldv rl)))
        (fun r3 =>
           match r_ld rl with
           | LDNone => Ok [r3]
           | LDLang =>
               bindl (match r_ldk rl with
                      | KExec => mat_exec cfg fe (r_ldv rl) col_ld TLit [] r3
                      | k => if is_plain k then (rdo r' <- mat_template cfg (r_ldv rl) k col_ld [] TNone [] r3; Ok [r']) else Err EUnmodelled
                      end)
                     (fun r4 => match rget col_object r4, rget col_ld r4 with
                                | Some o, Some l => Ok [rset col_object (o ++ [64] ++ l) r4]
                                | _, _ => Err EKey
                                end)
           | LDDt =>
               bindl (match r_ldk rl with
                      | KExec => mat_exec cfg fe (r_ldv rl) col_ld TIri [] r3
                      | k => if is_plain k then (rdo r' <- mat_template cfg (r_ldv rl) k col_ld [] TIri [] r3; Ok [r']) else Err EUnmodelled
                      end)
                     (fun r4 => match rget col_object r4, rget col_ld r4 with
                                | Some o, Some l => Ok [rset col_object (o ++ [94; 94] ++ l) r4]
                                | _, _ => Err EKey
                                end)
           end).

(* ---------------------------------------------------------------- _merge_data *)
Definition add_prefix (p : ustr) (r : row) : row := map (fun kv => (p ++ fst kv, snd kv)) r.
Definition cond_holds (c p : row) (cond : ustr * ustr) : bool :=
  match rget (fst cond) c, rget (snd cond) p with
  | Some a, Some b => ueqb a b
  | _, _ => false
  end.
Definition join_cols_ok (child parent : frame) (conds : list (ustr * ustr)) : bool :=
  forallb (fun c => forallb (fun cd => match rget (fst cd) c with Some _ => true | None => false end) conds) child
  && forallb (fun p => forallb (fun cd => match rget (snd cd) p with Some _ => true | None => false end) conds) parent.
(* inner equi-join; the parent's columns get the prefix parent_.  Row order: pandas orders by child index for `join` and
   by left order for `merge`; the result is used as a set, the model lists child-major. *)
Definition merge_data (child parent : frame) (conds : list (ustr * ustr)) : result frame :=
  match conds with
  | [] => Err EOther
  | _ =>
      if negb (join_cols_ok child parent conds) then Err EKey else
      (* DataFrame.join / merge refuse (or rename) columns present on both sides: a frame that already went through a
         join carries parent_ columns *)
      if existsb (fun c => existsb (fun p => existsb (fun kv => match rget (fst kv) c with Some _ => true | None => false end)
                                                      (add_prefix parent_prefix p)) parent) child then Err EValue else
      Ok (flat_map (fun c => flat_map (fun p => if forallb (cond_holds c p) conds then [c ++ add_prefix parent_prefix p] else [])
                                      parent) child)
  end.

(* ---------------------------------------------------------------- _materialize_rml_rule *)
Definition all_constant (rl : rule) : bool :=
  mkind_eqb (r_sk rl) KConst && mkind_eqb (r_pk rl) KConst && mkind_eqb (r_ok rl) KConst && mkind_eqb (r_gk rl) KConst.
Definition keep_subject_col (nest : nat) : ustr := u "keep_subject" ++ dec_of_nat nest.
Definition quote_triple (t : ustr) : ustr := u "<< " ++ t ++ u " >>".
Definition rmap_rows (f : row -> result row) (d : frame) : result frame := rmap_all f d.
Definition rflat_rows (f : row -> result (list row)) (d : frame) : result frame := rdo ls <- rmap_all f d; Ok (concat ls).

Section Mat.
  Variable cfg : ecfg.
  Variable fe : fenv.
  Variable rules : list rule.
  (* _get_data: source key, reference set -> preprocessed frame *)
  Variable get_data : ustr -> list ustr -> result frame.

  Definition refs_fuel := S (length rules).

  Definition set_from (dst src : ustr) (wrap : ustr -> ustr) (r : row) : result row :=
    match rget src r with Some v => Ok (rset dst (wrap v) r) | None => Err EKey end.

  (* the end of _materialize_rml_rule, row by row: data['triple'] = subject + ' ' + predicate + ' ' + object; the graph term
     (outermost level, N-QUADS only); the term columns are dropped *)
  Definition finish_row (nest : nat) (rl : rule) (r : row) : result (list row) :=
    match rget col_subject r, rget col_predicate r, rget col_object r with
    | Some s, Some p, Some o =>
        let r1 := rset col_triple (s ++ [32] ++ p ++ [32] ++ o) r in
        rdo gs <-
          (if (Nat.eqb nest 0) && c_nquads cfg then
             rdo g <- (if is_plain (r_gk rl) && negb (ueqb (r_gv rl) Tables.c_rml_default_graph)
                       then rdo r2 <- mat_template cfg (r_gv rl) (r_gk rl) col_graph [] TIri [] r1; Ok [r2]
                       else match r_gk rl with
                            | KExec => mat_exec cfg fe (r_gv rl) col_graph TIri [] r1
                            | _ => Ok [rset col_graph [] r1]
                            end);
             rmap_all (fun r2 => match rget col_triple r2, rget col_graph r2 with
                                 | Some t, Some gr => Ok (rset col_triple (t ++ [32] ++ gr) r2)
                                 | _, _ => Err EKey
                                 end) g
           else Ok [r1]);
        Ok (map (fun r3 => rdrop col_object (rdrop col_predicate (rdrop col_subject r3))) gs)
    | _, _, _ => Err EKey
    end.

  Fixpoint mat_rule (fuel : nat) (rl : rule) (data : option frame) (pjrefs : list ustr) (nest : nat) : result frame :=
    match fuel with
    | O => Err EFuel
    | S f =>
        let refs := rule_refs (fn_table fe) refs_fuel rules false rl ++ pjrefs in
        let obtain (extra : list ustr) := match data with Some d => Ok d | None => get_data (r_src rl) (dedup (refs ++ extra)) end in
        rdo terms <-
          (if all_constant rl then rflat_rows (mat_terms cfg fe rl []) [[(u "placeholder", u "placeholder")]]
           else if mkind_eqb (r_sk rl) KQuoted || mkind_eqb (r_ok rl) KQuoted then
             rdo d0 <- obtain [];
             rdo d1 <-
               (if mkind_eqb (r_sk rl) KQuoted then
                  match find_rule rules (r_sv rl) with
                  | None => Err EOther
                  | Some prule =>
                      rdo d <-
                        (match r_sjoin rl with
                         | [] =>
                             rdo d <- mat_rule f prule (Some d0) [] (S nest);
                             rmap_rows (set_from col_subject col_triple quote_triple) d
                         | conds =>
                             rdo pd <- mat_rule f prule None (joins_parent conds) (S nest);
                             rdo m <- merge_data d0 pd conds;
                             rdo m1 <- rmap_rows (set_from col_subject col_parent_triple quote_triple) m;
                             Ok (map (rdrop col_parent_triple) m1)
                         end);
                      rmap_rows (set_from (keep_subject_col nest) col_subject (fun x => x)) d
                  end
                else Ok d0);
             rdo d2 <-
               (if mkind_eqb (r_ok rl) KQuoted then
                  match find_rule rules (r_ov rl) with
                  | None => Err EOther
                  | Some prule =>
                      rdo d <-
                        (match r_ojoin rl with
                         | [] =>
                             rdo d <- mat_rule f prule (Some d1) [] (S nest);
                             rmap_rows (set_from col_object col_triple quote_triple) d
                         | conds =>
                             rdo pd <- mat_rule f prule None (joins_parent conds) (S nest);
                             rdo m <- merge_data d1 pd conds;
                             rdo m1 <- rmap_rows (set_from col_object col_parent_triple quote_triple) m;
                             Ok (map (rdrop col_parent_triple) m1)
                         end);
                      if mkind_eqb (r_sk rl) KQuoted then rmap_rows (set_from col_subject (keep_subject_col nest) (fun x => x)) d
                      else Ok d
                  end
                else Ok d1);
             rflat_rows (mat_terms cfg fe rl []) d2
           else if mkind_eqb (r_ok rl) KParent then
             match find_rule rules (r_ov rl) with
             | None => Err EOther
             | Some prule =>
                 let prefs := dedup (rule_refs (fn_table fe) refs_fuel rules true prule ++ joins_parent (r_ojoin rl)) in
                 rdo d <- obtain (joins_child (r_ojoin rl));
                 rdo pd <- get_data (r_src prule) prefs;
                 rdo m <- merge_data d pd (r_ojoin rl);
                 let rl' := {| r_id := r_id rl; r_tm := r_tm rl; r_src := r_src rl; r_asserted := r_asserted rl;
                               r_sk := r_sk rl; r_sv := r_sv rl; r_stt := r_stt rl; r_pk := r_pk rl; r_pv := r_pv rl;
                               r_ok := r_sk prule; r_ov := r_sv prule; r_ott := r_ott rl;
                               r_ld := r_ld rl; r_ldk := r_ldk rl; r_ldv := r_ldv rl; r_gk := r_gk rl; r_gv := r_gv rl;
                               r_sjoin := r_sjoin rl; r_ojoin := r_ojoin rl |} in
                 rflat_rows (mat_terms cfg fe rl' parent_prefix) m
             end
           else
             rdo d <- obtain [];
             rflat_rows (mat_terms cfg fe rl []) d);
        rflat_rows (finish_row nest rl) terms
    end.

  Definition rule_fuel := S (S (length rules)).
  Definition rule_triples (rl : rule) : result (list ustr) :=
    rdo d <- mat_rule rule_fuel rl None [] 0;
    rmap_all (fun r => match rget col_triple r with Some t => Ok t | None => Err EKey end) d.

  (* union over the asserted rules; the grouping by mapping_partition does not enter (see Proofs/Grouping.v) *)
  Definition materialize_rules : result (list ustr) :=
    rdo ls <- rmap_all rule_triples (filter r_asserted rules);
    Ok (dedup (concat ls)).
End Mat.
