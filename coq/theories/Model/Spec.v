(* The properties' own reading of the R2RML / RML generation rules, written directly on the surface mapping and on tables
   of optional strings.  Independent of Engine.v and of the normalisation in Mapping.v: templates are parsed once into
   segments, terms are built by substitution, joins are list comprehensions, graphs are read off the maps.
   Definitions only. *)
From Coq Require Import String.
From Morph Require Import Base.UStr Gen.Tables Model.Terms Model.Data Model.Engine Model.Mapping.
Local Open Scope N_scope.

(* ---------------------------------------------------------------- tables *)
Definition srow := list (ustr * option ustr).
Definition stable := list srow.
Record scfg := { s_nquads : bool; s_printable : bool; s_safe : ustr; s_na : list ustr }.

(* the value of a column for a row; NULL, a missing column and every token of na_values are null *)
Definition sval (cfg : scfg) (r : srow) (c : ustr) : option ustr :=
  match assoc c r with
  | Some (Some v) => if mem v (s_na cfg) then None else Some v
  | _ => None
  end.

(* ---------------------------------------------------------------- templates (R2RML 7.3) *)
Inductive seg := SLit (c : N) | SVar (name : ustr).
(* outside braces: \{ \} \\ are escapes; inside braces the name runs to the next unescaped '}' *)
Fixpoint parse_tpl (s : ustr) (pend : bool) (var : option ustr) : list seg :=
  match s with
  | [] => []
  | c :: r =>
      match var with
      | None =>
          if pend then SLit c :: parse_tpl r false None
          else if c =? 92 then parse_tpl r true None
          else if c =? 123 then parse_tpl r false (Some [])
          else SLit c :: parse_tpl r false None
      | Some acc =>
          if pend then parse_tpl r false (Some (c :: acc))
          else if c =? 92 then parse_tpl r true (Some acc)
          else if c =? 125 then SVar (rev acc) :: parse_tpl r false None
          else parse_tpl r false (Some (c :: acc))
      end
  end.
Definition parse_template (t : ustr) : list seg := parse_tpl t false None.

Fixpoint subst (f : ustr -> option ustr) (segs : list seg) : option ustr :=
  match segs with
  | [] => Some []
  | SLit c :: r => option_map (cons c) (subst f r)
  | SVar n :: r => match f n, subst f r with Some v, Some w => Some (v ++ w) | _, _ => None end
  end.

(* ---------------------------------------------------------------- terms *)
Definition clean (cfg : scfg) (v : ustr) : ustr := if s_printable cfg then remove_non_printable v else v.
Definition canon_ok (dt : ustr) (v : ustr) : option ustr := match canon dt v with COk s => Some s | _ => None end.

(* the lexical value of a term map for a row (before delimiters) *)
Definition spec_lex (cfg : scfg) (k : mkind) (v : ustr) (tt : ttype) (dt : ustr) (r : srow) : option ustr :=
  match k with
  | KConst => Some v
  | KRef =>
      match sval cfg r v with
      | Some x => match tt with TLit => canon_ok dt (clean cfg x) | _ => Some (clean cfg x) end
      | None => None
      end
  | KTempl =>
      subst (fun n => match sval cfg r n with
                      | Some x =>
                          match tt with
                          | TIri => Some (pct_encode (s_safe cfg) (clean cfg x))
                          | TLit => canon_ok dt (clean cfg x)
                          | _ => Some (clean cfg x)
                          end
                      | None => None
                      end) (parse_template v)
  | _ => None
  end.
Definition render (tt : ttype) (lex : ustr) : ustr :=
  match tt with
  | TLit => 34 :: escape_lit lex ++ [34]
  | _ => delimit tt lex
  end.

(* language / datatype suffix of an object map *)
Definition spec_suffix (cfg : scfg) (o : objmap) (r : srow) : option (ustr * ustr) :=   (* (suffix, datatype for canon) *)
  match o_lang o, o_dt o with
  | Some m, _ => match spec_lex cfg (m_kind m) (m_value m) TNone [] r with Some l => Some (64 :: l, []) | None => None end
  | None, Some m =>
      if mkind_eqb (m_kind m) KConst && ueqb (m_value m) Tables.c_xsd_string then Some ([], [])
      else match spec_lex cfg (m_kind m) (m_value m) TIri [] r with
           | Some d => Some (94 :: 94 :: render TIri d, match m_kind m with KConst => m_value m | _ => [] end)
           | None => None
           end
  | None, None => Some ([], [])
  end.

(* R2RML 7.4 term types, read from the specification *)
Definition spec_tt_subject (m : tmap) : ttype :=
  match m_tt m with Some t => t | None => match m_kind m with KQuoted => TStar | KConst => match m_ck m with CkBnode => TBnode | _ => TIri end | _ => TIri end end.
Definition spec_tt_object (o : objmap) : ttype :=
  match m_tt (o_tm o) with
  | Some t => t
  | None =>
      match m_kind (o_tm o) with
      | KQuoted => TStar
      | KRef => TLit
      | KExec => TLit
      | KConst => match m_ck (o_tm o) with CkLit => TLit | CkBnode => TBnode | CkIri => match o_lang o, o_dt o with None, None => TIri | _, _ => TLit end end
      | _ => match o_lang o, o_dt o with None, None => TIri | _, _ => TLit end
      end
  end.

(* ---------------------------------------------------------------- function-valued term maps *)
(* the values a function execution yields for a row: the function applied to every combination of its arguments' values
   (nested executions contribute all their values); a null result contributes nothing, a list result all its elements.
   None = the function raises *)
Fixpoint cart (l : list (ustr * list ustr)) : list (list (ustr * ustr)) :=
  match l with
  | [] => [[]]
  | (n, vs) :: r => flat_map (fun v => map (cons (n, v)) (cart r)) vs
  end.
Section SpecFn.
  Variable cfg : scfg.
  Variable fe : fenv.
  Fixpoint spec_eval (fuel : nat) (eid : ustr) (r : srow) : option (list ustr) :=
    match fuel with
    | O => None
    | S f =>
        let rows := exec_rows_of (fn_table fe) eid in
        match rows with
        | [] => None
        | e0 :: _ =>
            match fn_params fe (fe_fun e0) with
            | None => None
            | Some ps =>
                let bound := flat_map (fun np =>
                  match filter (fun e => ueqb (fe_param e) (snd np)) rows with
                  | [] => []
                  | l => let e := last l e0 in
                         [(fst np, match fe_kind e with
                                   | KConst => Some [fe_value e]
                                   | KRef => match sval cfg r (fe_value e) with Some x => Some [x] | None => Some [] end
                                   | KTempl => match subst (fun n => sval cfg r n) (parse_template (fe_value e)) with Some x => Some [x] | None => Some [] end
                                   | KExec => spec_eval f (fe_value e) r
                                   | _ => Some []
                                   end)]
                  end) ps in
                if existsb (fun nv => match snd nv with None => true | _ => false end) bound then None else
                let combos := cart (map (fun nv => (fst nv, match snd nv with Some l => l | None => [] end)) bound) in
                fold_right (fun args acc =>
                  match acc, fn_apply fe (fe_fun e0) args with
                  | None, _ => None
                  | _, FRaise => None
                  | _, FUnmod => None
                  | Some l, FNull => Some l
                  | Some l, FStr s0 => if mem s0 (s_na cfg) then Some l else Some (s0 :: l)
                  | Some l, FList xs => Some (xs ++ l)
                  end) (Some []) combos
            end
        end
    end.
End SpecFn.

Section Doc.
  Variable cfg : scfg.
  Variable fe : fenv.
  Variable doc : document.
  Variable tables : ustr -> stable.

  (* all rendered terms of a term map for a row ([] = null) *)
  Definition spec_terms (k : mkind) (v : ustr) (tt : ttype) (dt : ustr) (r : srow) : list ustr :=
    match k with
    | KExec =>
        match spec_eval cfg fe (fnml_fuel (fn_table fe)) v r with
        | None => []
        | Some vals =>
            flat_map (fun x =>
              let x1 := clean cfg x in
              match tt with
              | TLit => match canon_ok dt x1 with Some c => [render TLit c] | None => [] end
              | TIri => [render TIri (strip x1)]
              | _ => [render tt x1]
              end) vals
        end
    | _ => match spec_lex cfg k v tt dt r with Some lex => [render tt lex] | None => [] end
    end.

  Definition find_tm (id : ustr) : option tmapdef := find (fun t => ueqb (t_id t) id) doc.

  Definition conds_hold (c p : srow) (conds : list (ustr * ustr)) : bool :=
    forallb (fun cd => match sval cfg c (fst cd), sval cfg p (snd cd) with Some a, Some b => ueqb a b | _, _ => false end) conds.
  (* the rows of the parent that a child row is joined with; no condition = the same row *)
  Definition joined_rows (child : srow) (parent_src : ustr) (conds : list (ustr * ustr)) : list srow :=
    match conds with
    | [] => [child]
    | _ => filter (fun p => conds_hold child p conds) (tables parent_src)
    end.

  (* graphs of a statement: the graph maps of the subject map and of the predicate-object map; the default graph iff
     there is none or rr:defaultGraph is named; a NULL graph value gives no placement *)
  Definition graph_terms (t : tmapdef) (pm : pom) (r : srow) : list ustr :=
    match t_sgraphs t ++ p_graphs pm with
    | [] => [[]]
    | gms => flat_map (fun g =>
               if mkind_eqb (m_kind g) KConst && ueqb (m_value g) Tables.c_rml_default_graph then [[]]
               else spec_terms (m_kind g) (m_value g) TIri [] r) gms
    end.

  (* all (subject, predicate, object) triples a triples map generates for a row, and its subject terms.
     fuel bounds the nesting depth of quoted triples maps *)
  Fixpoint subj_terms (fuel : nat) (t : tmapdef) (r : srow) : list ustr :=
    match fuel with
    | O => []
    | S f =>
        match m_kind (t_subj t) with
        | KQuoted =>
            match find_tm (m_value (t_subj t)) with
            | Some q => flat_map (fun r' => map quote_triple (tm_triples f q r')) (joined_rows r (t_src q) (t_sjoins t))
            | None => []
            end
        | k => spec_terms k (m_value (t_subj t)) (spec_tt_subject (t_subj t)) [] r
        end
    end
  with tm_triples (fuel : nat) (t : tmapdef) (r : srow) : list ustr :=
    match fuel with
    | O => []
    | S f =>
        let poms := t_poms t ++ map class_pom (t_classes t) in
        flat_map (fun s =>
          flat_map (fun pm =>
            (* a triple exists for the row only if it is placed in at least one graph *)
            match graph_terms t pm r with
            | [] => []
            | _ =>
            flat_map (fun p =>
              flat_map (fun pt =>
                  flat_map (fun o => map (fun ot => s ++ [32] ++ pt ++ [32] ++ ot) (obj_terms f t o r)) (p_objs pm))
                (spec_terms (m_kind p) (m_value p) TIri [] r)) (p_preds pm)
            end) poms) (subj_terms f t r)
    end
  with obj_terms (fuel : nat) (t : tmapdef) (o : objmap) (r : srow) : list ustr :=
    match fuel with
    | O => []
    | S f =>
        match m_kind (o_tm o) with
        | KParent =>
            match find_tm (m_value (o_tm o)) with
            | Some p => flat_map (fun r' => subj_terms f p r') (joined_rows r (t_src p) (o_joins o))
            | None => []
            end
        | KQuoted =>
            match find_tm (m_value (o_tm o)) with
            | Some q => flat_map (fun r' => map quote_triple (tm_triples f q r')) (joined_rows r (t_src q) (o_joins o))
            | None => []
            end
        | k =>
            let tt := spec_tt_object o in
            match spec_suffix cfg o r with
            | None => []
            | Some (suffix, dt) => map (fun x => x ++ suffix) (spec_terms k (m_value (o_tm o)) tt dt r)
            end
        end
    end.

  Definition spec_fuel : nat := (3 * S (length doc))%nat.

  Definition asserted (t : tmapdef) : bool :=
    negb (t_nonasserted t) && negb (match t_poms t, t_classes t with [], [] => true | _, _ => false end).

  (* statements of one triples map, one row: per predicate-object map, triple x graph *)
  Definition tm_row_lines (t : tmapdef) (r : srow) : list ustr :=
    let poms := t_poms t ++ map class_pom (t_classes t) in
    flat_map (fun s =>
      flat_map (fun pm =>
        flat_map (fun p =>
          flat_map (fun pt =>
              flat_map (fun o =>
                flat_map (fun ot =>
                  let triple := s ++ [32] ++ pt ++ [32] ++ ot in
                  if s_nquads cfg then map (fun g => triple ++ [32] ++ g) (graph_terms t pm r) else
                  (* N-TRIPLES: the graph-less projection, present iff placed in at least one graph *)
                  match graph_terms t pm r with [] => [] | _ => [triple] end)
                  (obj_terms spec_fuel t o r)) (p_objs pm))
            (spec_terms (m_kind p) (m_value p) TIri [] r)) (p_preds pm)) poms) (subj_terms spec_fuel t r).

  Definition spec_lines : list ustr :=
    dedup (flat_map (fun t => if asserted t then flat_map (tm_row_lines t) (tables (t_src t)) else []) doc).
End Doc.
