(* The function registry: parameters of the built-in functions as REGENERATED from built_in_functions.bif_dict
   (Gen/Tables.v), ASCII-exact definitions of the built-ins the generators use, and the user-defined functions of the
   harness (harness/udfs.py).  Everything else is left unmodelled.  Definitions only. *)
From Coq Require Import String.
From Morph Require Import Base.UStr Gen.Tables Model.Terms Model.Data Model.Engine.
Local Open Scope N_scope.

Definition grel (s : string) : ustr := u "http://users.ugent.be/~bjdmeest/function/grel.ttl#" ++ u s.
Definition mkgc (s : string) : ustr := u "https://github.com/morph-kgc/morph-kgc/function/built-in.ttl#" ++ u s.
Definition udf (s : string) : ustr := u "http://ex.org/fn/" ++ u s.

(* user-defined functions of harness/udfs.py: (function id, [(python parameter, parameter IRI)]) *)
Definition udf_params : list (ustr * list (ustr * ustr)) := [
  (udf "dup", [(u "v"%string, udf "p_v")]);
  (udf "nullif", [(u "v"%string, udf "p_v"); (u "x"%string, udf "p_x")]);
  (udf "empty", [(u "v"%string, udf "p_v")]);
  (udf "maybe", [(u "v"%string, udf "p_v")]);
  (udf "pair", [(u "a"%string, udf "p_a"); (u "b"%string, udf "p_b")]);
  (udf "evens", [(u "v"%string, udf "p_v")])].
Definition fun_params (fid : ustr) : option (list (ustr * ustr)) :=
  match assoc fid Tables.bif with Some ps => Some ps | None => assoc fid udf_params end.

Definition farg (args : list (ustr * ustr)) (n : string) : option ustr := assoc (u n) args.
Arguments farg _ _%string_scope.
Definition ascii_only (s : ustr) : bool := forallb (fun c => c <? 128) s.
Definition is_fun (fid : ustr) (f : ustr) : bool := ueqb fid f.
Definition apply_fun (fid : ustr) (args : list (ustr * ustr)) : fres :=
  if is_fun fid (grel "toUpperCase") then
    match farg args "string" with Some s => if ascii_only s then FStr (upper s) else FUnmod | None => FRaise end
  else if is_fun fid (grel "toLowerCase") then
    match farg args "string" with Some s => if ascii_only s then FStr (lower s) else FUnmod | None => FRaise end
  else if is_fun fid (grel "reverse") then
    match farg args "string" with Some s => FStr (rev s) | None => FRaise end
  else if is_fun fid (grel "string_trim") then
    match farg args "string" with Some s => if ascii_only s then FStr (strip s) else FUnmod | None => FRaise end
  else if is_fun fid (grel "string_replace") then
    match farg args "string", farg args "old_substring", farg args "new_substring" with
    | Some s, Some o, Some n => match o with [] => FUnmod | _ => FStr (replace_all o n s) end
    | _, _, _ => FRaise
    end
  else if is_fun fid (mkgc "concat") then
    match farg args "string1", farg args "string2" with
    | Some s1, Some s2 => FStr (s1 ++ (match farg args "separator" with Some sep => sep | None => [] end) ++ s2)
    | _, _ => FRaise
    end
  else if is_fun fid (mkgc "string_split_explode") then
    match farg args "string", farg args "separator" with
    | Some s, Some sep => match sep with [] => FRaise | _ => FList (split_on sep s) end
    | _, _ => FRaise
    end
  else if is_fun fid (mkgc "controls_if_cast") then
    match farg args "string", farg args "value_true" with
    | Some s, Some t =>
        if negb (ascii_only s) then FUnmod else
        if mem (lower s) [[]; u "false"; u "no"; u "off"; u "0"] then (match farg args "value_false" with Some f => FStr f | None => FNull end)
        else FStr t
    | _, _ => FRaise
    end
  else if is_fun fid (udf "dup") then match farg args "v" with Some v => FList [v; v ++ u "2"] | None => FRaise end
  else if is_fun fid (udf "nullif") then
    match farg args "v", farg args "x" with Some v, Some x => if ueqb v x then FNull else FStr v | _, _ => FRaise end
  else if is_fun fid (udf "empty") then match farg args "v" with Some _ => FList [] | None => FRaise end
  else if is_fun fid (udf "maybe") then
    match farg args "v" with Some v => if memN 44 v then FList (split_on [44] v) else FStr v | None => FRaise end
  else if is_fun fid (udf "pair") then
    match farg args "a", farg args "b" with Some x, Some y => FList [x; y] | _, _ => FRaise end
  else if is_fun fid (udf "evens") then
    match farg args "v" with Some v => if Nat.even (length v) then FList [v] else FList [] | None => FRaise end
  else FUnmod.
