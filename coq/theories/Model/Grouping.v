(* __init__.py materialize_set L26-58 / __main__.py L27-50: the asserted rules are grouped by their mapping_partition
   label, every group is materialised on its own (a Python set per group), and the group results are united.
   Definitions only. *)
From Coq Require Import String.
From Morph Require Import Base.UStr Model.Terms Model.Data Model.Engine Model.Partition.
Local Open Scope N_scope.

Section Grouped.
  Variable cfg : ecfg.
  Variable fe : fenv.
  Variable rules : list rule.
  Variable get_data : ustr -> list ustr -> result frame.
  Variable lab : rule -> label.            (* the mapping_partition column, whatever algorithm produced it *)

  Definition asserted_rules : list rule := filter r_asserted rules.
  Definition group_labels : list label := distinct_labels (map lab asserted_rules).
  Definition group_of_label (l : label) : list rule := filter (fun r => label_eqb (lab r) l) asserted_rules.
  (* _materialize_mapping_group_to_set *)
  Definition group_triples (g : list rule) : result (list ustr) :=
    rdo ls <- rmap_all (rule_triples cfg fe rules get_data) g; Ok (dedup (concat ls)).
  Definition groups_results : result (list (list ustr)) := rmap_all group_triples (map group_of_label group_labels).
  Definition materialize_grouped : result (list ustr) :=
    rdo gs <- groups_results; Ok (dedup (concat gs)).
End Grouped.
