(* Surface mapping AST and the normalisation chain of mapping_parser.py, in the order in which the code applies it:
   _rdf_class_to_pom, (shortcut expansion: a spelling, not in the AST), _subject_graph_maps_to_pom,
   _complete_pom_with_default_graph, _complete_termtypes, _complete_triples_map_class, _validate_termtypes,
   RML_PARSING_QUERY (cross product, including what its OPTIONALs do to mixed object maps),
   _remove_delimiters_from_mappings, _normalize_rml_star/_expand_rml_star, _remove_self_joins_no_condition.
   Definitions only. *)
From Coq Require Import String.
From Morph Require Import Base.UStr Gen.Tables Model.Terms Model.Data Model.Engine.
Local Open Scope N_scope.

(* RDF node kind of a constant's value in the mapping document *)
Inductive ckind := CkIri | CkLit | CkBnode.
Record tmap := { m_kind : mkind; m_value : ustr; m_ck : ckind; m_tt : option ttype }.
(* object map: ordinary (const/templ/ref/quoted[/exec]) or referencing (KParent, value = parent triples map) *)
Record objmap := { o_tm : tmap; o_lang : option tmap; o_dt : option tmap; o_joins : list (ustr * ustr) }.
Record pom := { p_preds : list tmap; p_objs : list objmap; p_graphs : list tmap }.
Record tmapdef := {
  t_id : ustr; t_src : ustr;
  t_nonasserted : bool;                   (* declared rml:NonAssertedTriplesMap *)
  t_subj : tmap; t_sjoins : list (ustr * ustr);
  t_classes : list ustr; t_sgraphs : list tmap; t_poms : list pom }.
Definition document := list tmapdef.

Definition mk_tmap k v ck tt := {| m_kind := k; m_value := v; m_ck := ck; m_tt := tt |}.
Definition const_iri (v : ustr) : tmap := mk_tmap KConst v CkIri None.
Definition plain_obj (m : tmap) : objmap := {| o_tm := m; o_lang := None; o_dt := None; o_joins := [] |}.

(* ---- 1. rr:class -> predicate-object map *)
Definition class_pom (c : ustr) : pom :=
  {| p_preds := [const_iri Tables.c_rdf_type]; p_objs := [plain_obj (const_iri c)]; p_graphs := [] |}.
Definition class_to_pom (t : tmapdef) : tmapdef :=
  {| t_id := t_id t; t_src := t_src t; t_nonasserted := t_nonasserted t; t_subj := t_subj t; t_sjoins := t_sjoins t;
     t_classes := []; t_sgraphs := t_sgraphs t; t_poms := t_poms t ++ map class_pom (t_classes t) |}.

(* ---- 3. graph maps of the subject map are added to every predicate-object map, then removed from the subject map *)
Definition sgraphs_to_pom (t : tmapdef) : tmapdef :=
  {| t_id := t_id t; t_src := t_src t; t_nonasserted := t_nonasserted t; t_subj := t_subj t; t_sjoins := t_sjoins t;
     t_classes := t_classes t; t_sgraphs := [];
     t_poms := map (fun p => {| p_preds := p_preds p; p_objs := p_objs p; p_graphs := p_graphs p ++ t_sgraphs t |}) (t_poms t) |}.

(* ---- 4. predicate-object maps without graph map get rml:defaultGraph *)
Definition default_graph (p : pom) : pom :=
  match p_graphs p with
  | [] => {| p_preds := p_preds p; p_objs := p_objs p; p_graphs := [const_iri Tables.c_rml_default_graph] |}
  | _ => p
  end.
Definition complete_default_graph (t : tmapdef) : tmapdef :=
  {| t_id := t_id t; t_src := t_src t; t_nonasserted := t_nonasserted t; t_subj := t_subj t; t_sjoins := t_sjoins t;
     t_classes := t_classes t; t_sgraphs := t_sgraphs t; t_poms := map default_graph (t_poms t) |}.

(* ---- 5. term types (R2RML 7.4 as the code completes them).  Steps a-c are position independent: *)
Definition tt_early (m : tmap) : option ttype :=
  match m_tt m with
  | Some x => Some x
  | None =>
      match m_kind m with
      | KQuoted => Some TStar
      | KConst => match m_ck m with CkBnode => Some TBnode | CkLit => Some TLit | CkIri => None end
      | _ => None
      end
  end.
(* d: object maps with a reference, a function execution, a language map or a datatype map are literals *)
Definition tt_object (o : objmap) : option ttype :=
  match tt_early (o_tm o) with
  | Some x => Some x
  | None =>
      match m_kind (o_tm o), o_lang o, o_dt o with
      | KRef, _, _ | KExec, _, _ | _, Some _, _ | _, _, Some _ => Some TLit
      | _, _, _ => None
      end
  end.
Definition tt_final (x : option ttype) : ttype := match x with Some t => t | None => TIri end.
(* e: a referencing object map takes the term type the parent's subject map has at that moment *)
Definition parent_subject_tt (d : document) (parent : ustr) : option ttype :=
  match find (fun t => ueqb (t_id t) parent) d with Some t => tt_early (t_subj t) | None => None end.

(* ---- 7. _validate_termtypes *)
Definition ttype_eqb (a b : ttype) : bool :=
  match a, b with TIri, TIri | TBnode, TBnode | TLit, TLit | TStar, TStar | TNone, TNone => true | _, _ => false end.
Definition valid_subject_tt (t : ttype) := match t with TIri | TBnode | TStar => true | _ => false end.
Definition valid_object_tt (t : ttype) := match t with TIri | TBnode | TLit | TStar => true | _ => false end.

(* ---- 8. the parsing query: one flat rule per (predicate map, object map [x language/datatype map], graph map) *)
(* what the nested OPTIONALs do: a predicate-object map holding at least one ordinary object map never yields its
   referencing object maps *)
Definition is_parent (o : objmap) : bool := mkind_eqb (m_kind (o_tm o)) KParent.
Definition effective_objs (p : pom) : list objmap :=
  match filter (fun o => negb (is_parent o)) (p_objs p) with
  | [] => p_objs p
  | ords => ords
  end.
(* language / datatype rows of one object map; a constant xsd:string datatype is filtered out by the query *)
Definition ld_rows (o : objmap) : list (ldkind * mkind * ustr) :=
  let l := match o_lang o with Some m => [(LDLang, m_kind m, m_value m)] | None => [] end in
  let d := match o_dt o with
           | Some m => if ueqb (m_value m) Tables.c_xsd_string then [] else [(LDDt, m_kind m, m_value m)]
           | None => []
           end in
  match l ++ d with [] => [(LDNone, KNone, [])] | rows => rows end.

(* _remove_delimiters_from_mappings *)
Definition undelimit_ident (s : ustr) : ustr :=
  match s with
  | 34 :: r => if Nat.ltb 2 (length s) && (match rev r with 34 :: _ => true | _ => false end) then removelast r else s
  | _ => s
  end.
Definition undelimit_template (t : ustr) : ustr := replace_all [34; 125] [125] (replace_all [123; 34] [123] t).
Definition undelimit (k : mkind) (v : ustr) : ustr :=
  match k with KTempl => undelimit_template v | KRef => undelimit_ident v | _ => v end.
Definition undelimit_joins (j : list (ustr * ustr)) := map (fun cp => (undelimit_ident (fst cp), undelimit_ident (snd cp))) j.

Definition blank (s : ustr) : bool := forallb is_ws s.   (* matched by '^\s*$' (ASCII; see DESIGN) *)

(* a flat rule before star expansion; ids are assigned by the expansion *)
Definition base_rules_of (d : document) (t : tmapdef) : result (list rule) :=
  let stt := tt_final (tt_early (t_subj t)) in
  if negb (valid_subject_tt stt) then Err EValue else
  let asserted := negb (t_nonasserted t) && negb (match t_poms t with [] => true | _ => false end) in
  let mk pk pv ok ov ott ld ldk ldv gk gv oj :=
      {| r_id := []; r_tm := t_id t; r_src := t_src t; r_asserted := asserted;
         r_sk := m_kind (t_subj t); r_sv := undelimit (m_kind (t_subj t)) (m_value (t_subj t)); r_stt := stt;
         r_pk := pk; r_pv := undelimit pk pv; r_ok := ok; r_ov := undelimit ok ov; r_ott := ott;
         r_ld := ld; r_ldk := ldk; r_ldv := ldv; r_gk := gk; r_gv := undelimit gk gv;
         r_sjoin := undelimit_joins (t_sjoins t); r_ojoin := undelimit_joins oj |} in
  match t_poms t with
  | [] => Ok [mk KNone [] KNone [] TNone LDNone KNone [] KNone [] []]
  | poms =>
      rdo per_pom <- rmap_all (fun p =>
        rdo objs <- rmap_all (fun o =>
          let ott := if is_parent o
                     then tt_final (match m_tt (o_tm o) with Some x => Some x | None => parent_subject_tt d (m_value (o_tm o)) end)
                     else tt_final (tt_object o) in
          if negb (valid_object_tt ott) then Err EValue else
          Ok (map (fun ldr => (o, ott, ldr)) (if is_parent o then [(LDNone, KNone, [])] else ld_rows o))) (effective_objs p);
        rdo preds <- rmap_all (fun pm => match tt_final (tt_early pm) with TIri => Ok pm | _ => Err EValue end) (p_preds p);
        rdo graphs <- rmap_all (fun gm => match tt_final (tt_early gm) with TIri => Ok gm | _ => Err EValue end) (p_graphs p);
        Ok (flat_map (fun pm => flat_map (fun oo => flat_map (fun gm =>
              let '(o, ott, (ld, ldk, ldv)) := oo in
              [mk (m_kind pm) (m_value pm) (m_kind (o_tm o)) (m_value (o_tm o)) ott ld ldk ldv (m_kind gm) (m_value gm) (o_joins o)])
              graphs) (concat objs)) preds)) poms;
      Ok (concat per_pom)
  end.

Definition prepare (d : document) : document :=
  map (fun t => complete_default_graph (sgraphs_to_pom (class_to_pom t))) d.

(* ---- 13. _normalize_rml_star: every quoted reference is replaced by one copy per (expanded) rule of the quoted
   triples map; ids are made unique.  Structural in a fuel bounded by the number of triples maps. *)
Definition sep_open : ustr := [40]. Definition sep_comma : ustr := [44]. Definition sep_close : ustr := [41].
Fixpoint expand_tm (fuel : nat) (base : list (nat * rule)) (tm : ustr) : result (list rule) :=
  match fuel with
  | O => Err EFuel
  | S f =>
      let mine := filter (fun kr => ueqb (r_tm (snd kr)) tm) base in
      rdo per <- rmap_all (fun kr =>
        let '(k, r) := kr in
        rdo svs <- (if mkind_eqb (r_sk r) KQuoted then rdo l <- expand_tm f base (r_sv r); Ok (map (fun x => Some (r_id x)) l) else Ok [None]);
        rdo ovs <- (if mkind_eqb (r_ok r) KQuoted then rdo l <- expand_tm f base (r_ov r); Ok (map (fun x => Some (r_id x)) l) else Ok [None]);
        Ok (flat_map (fun sv => map (fun ov =>
              let id := dec_of_nat k ++ sep_open ++ (match sv with Some i => i | None => [] end) ++ sep_comma
                        ++ (match ov with Some i => i | None => [] end) ++ sep_close in
              {| r_id := id; r_tm := r_tm r; r_src := r_src r; r_asserted := r_asserted r;
                 r_sk := r_sk r; r_sv := match sv with Some i => i | None => r_sv r end; r_stt := r_stt r;
                 r_pk := r_pk r; r_pv := r_pv r;
                 r_ok := r_ok r; r_ov := match ov with Some i => i | None => r_ov r end; r_ott := r_ott r;
                 r_ld := r_ld r; r_ldk := r_ldk r; r_ldv := r_ldv r; r_gk := r_gk r; r_gv := r_gv r;
                 r_sjoin := r_sjoin r; r_ojoin := r_ojoin r |}) ovs) svs)) mine;
      Ok (concat per)
  end.
Fixpoint number_from {A} (k : nat) (l : list A) : list (nat * A) :=
  match l with [] => [] | x :: r => (k, x) :: number_from (S k) r end.

(* ---- parent references point at the first rule of the parent triples map *)
Definition first_rule_of_tm (rules : list rule) (tm : ustr) : option rule := find (fun r => ueqb (r_tm r) tm) rules.
Definition resolve_parent (rules : list rule) (r : rule) : result rule :=
  if mkind_eqb (r_ok r) KParent then
    match first_rule_of_tm rules (r_ov r) with
    | None => Err EKey
    | Some p =>
        (* ---- 14. _remove_self_joins_no_condition *)
        if ueqb (r_src r) (r_src p) && forallb (fun cp => ueqb (fst cp) (snd cp)) (r_ojoin r) then
          Ok {| r_id := r_id r; r_tm := r_tm r; r_src := r_src r; r_asserted := r_asserted r;
                r_sk := r_sk r; r_sv := r_sv r; r_stt := r_stt r; r_pk := r_pk r; r_pv := r_pv r;
                r_ok := r_sk p; r_ov := r_sv p; r_ott := r_stt p;
                r_ld := r_ld r; r_ldk := r_ldk r; r_ldv := r_ldv r; r_gk := r_gk r; r_gv := r_gv r;
                r_sjoin := r_sjoin r; r_ojoin := [] |}
        else
          Ok {| r_id := r_id r; r_tm := r_tm r; r_src := r_src r; r_asserted := r_asserted r;
                r_sk := r_sk r; r_sv := r_sv r; r_stt := r_stt r; r_pk := r_pk r; r_pv := r_pv r;
                r_ok := r_ok r; r_ov := r_id p; r_ott := r_ott r;
                r_ld := r_ld r; r_ldk := r_ldk r; r_ldv := r_ldv r; r_gk := r_gk r; r_gv := r_gv r;
                r_sjoin := r_sjoin r; r_ojoin := r_ojoin r |}
    end
  else Ok r.

(* values the code turns into NaN just before partitioning (replace(r'^\s*$', None)): a needed value that is blank makes
   the run fail in ways this model does not follow *)
Definition rule_has_blank (r : rule) : bool :=
  (is_plain (r_sk r) && blank (r_sv r)) || (is_plain (r_pk r) && blank (r_pv r)) || (is_plain (r_ok r) && blank (r_ov r))
  || (is_plain (r_gk r) && blank (r_gv r)) || (is_plain (r_ldk r) && blank (r_ldv r)).

Definition tm_ids (d : document) : list ustr := map t_id d.
Definition normalise (d0 : document) : result (list rule) :=
  let d := prepare d0 in
  (* no predicate-object map in the whole section: the parsing query binds no ?object_map and the code fails on the
     missing column *)
  if forallb (fun t => match t_poms t with [] => true | _ => false end) d then Err EKey else
  rdo base <- rmap_all (base_rules_of d) d;
  let nb := number_from 0 (concat base) in
  rdo ex <- rmap_all (expand_tm (S (length d)) nb) (dedup_first (tm_ids d));
  let rules := concat ex in
  rdo rules' <- rmap_all (resolve_parent rules) rules;
  if existsb rule_has_blank rules' then Err EUnmodelled else Ok rules'.
