(* Output side: the abstract file system of utils.prepare_output_files L139-162 + triples_to_file L266-278 (remove, then
   append per group), and CPython 3.12's write policy below f.write (TextIOWrapper pending chunks, BufferedWriter) that
   decides which bytes reach one write(2).  Definitions only. *)
From Coq Require Import String.
From Morph Require Import Base.UStr.
Local Open Scope N_scope.

(* ---------------------------------------------------------------- abstract file system *)
Definition fs := list (ustr * list ustr).            (* path -> lines, in file order; absent = no such file *)
Definition fs_get (f : fs) (p : ustr) : option (list ustr) := assoc p f.
Fixpoint fs_remove (p : ustr) (f : fs) : fs :=
  match f with [] => [] | (q, c) :: r => if ueqb p q then fs_remove p r else (q, c) :: fs_remove p r end.
(* open(path, 'a'); write lines; close -- creates the file when it does not exist, even for no lines *)
Fixpoint fs_append (p : ustr) (ls : list ustr) (f : fs) : fs :=
  match f with
  | [] => [(p, ls)]
  | (q, c) :: r => if ueqb p q then (q, c ++ ls) :: r else (q, c) :: fs_append p ls r
  end.
(* one command-line run: the paths it clears first (the output file, or the file of every mapping group of the rule
   table), then one append per asserted group, in dispatch order *)
Record run := { clears : list ustr; writes : list (ustr * list ustr) }.
Definition cli_run (f : fs) (r : run) : fs :=
  fold_left (fun acc w => fs_append (fst w) (snd w) acc) (writes r) (fold_left (fun acc p => fs_remove p acc) (clears r) f).
Definition written_to (p : ustr) (ws : list (ustr * list ustr)) : list ustr :=
  flat_map (fun w => if ueqb p (fst w) then snd w else []) ws.

(* ---------------------------------------------------------------- CPython write policy *)
Definition chunk : nat := 8192.       (* TextIOWrapper._CHUNK_SIZE and the BufferedWriter buffer size *)
Record wstate := { pending : list N; buf : list N; out : list (list N) }.   (* out: raw write(2) payloads, newest first *)
Definition init_w : wstate := {| pending := []; buf := []; out := [] |}.
(* BufferedWriter.write(b) *)
Definition buffered_write (b : list N) (s : wstate) : wstate :=
  if Nat.leb (length (buf s) + length b) chunk then {| pending := pending s; buf := buf s ++ b; out := out s |}
  else
    let out1 := match buf s with [] => out s | bs => bs :: out s end in
    if Nat.ltb chunk (length b) then {| pending := pending s; buf := []; out := b :: out1 |}
    else {| pending := pending s; buf := b; out := out1 |}.
Definition text_flush (s : wstate) : wstate :=
  match pending s with
  | [] => s
  | p => buffered_write p {| pending := []; buf := buf s; out := out s |}
  end.
(* TextIOWrapper.write(line): pre-flush when the pending chunk would overflow, append, flush when the chunk is full *)
Definition text_write (line : list N) (s : wstate) : wstate :=
  let s1 := if Nat.ltb chunk (length (pending s) + length line) then text_flush s else s in
  let s2 := {| pending := pending s1 ++ line; buf := buf s1; out := out s1 |} in
  if Nat.leb chunk (length (pending s2)) then text_flush s2 else s2.
(* f.flush(); f.close() *)
Definition final_flush (s : wstate) : wstate :=
  let s1 := text_flush s in
  match buf s1 with [] => s1 | bs => {| pending := []; buf := []; out := bs :: out s1 |} end.
Definition raw_payloads (lines : list (list N)) : list (list N) :=
  rev (out (final_flush (fold_left (fun s l => text_write l s) lines init_w))).
