(* config.py: defaults (complete_configuration_with_defaults L138-158 over the regenerated option tables), validation of
   the enumerated options (L160-186), ConfigParser.getboolean, get_na_values, get_output_file_path.  Definitions only. *)
From Coq Require Import String.
From Morph Require Import Base.UStr Gen.Tables Model.Data.
Local Open Scope N_scope.

(* the CONFIGURATION section as read by ConfigParser: option name (lower-cased by the parser) -> value (stripped) *)
Definition cmap := list (ustr * ustr).
Definition cget (m : cmap) (k : ustr) : option ustr := assoc k m.
Definition cset (k v : ustr) (m : cmap) : cmap := rset k v m.

(* _is_option_provided *)
Definition provided (m : cmap) (opt : ustr) (empty_value_is_valid : bool) : bool :=
  match cget m opt with
  | None => false
  | Some v => empty_value_is_valid || negb (ueqb v [])
  end.
Definition fill (empty_valid : bool) (m : cmap) (od : ustr * ustr) : cmap :=
  if provided m (fst od) empty_valid then m else cset (fst od) (snd od) m.
Definition complete (m : cmap) : cmap :=
  fold_left (fill false) Tables.options_empty_non_valid (fold_left (fill true) Tables.options_empty_valid m).

(* validate_configuration_section: the three enumerated options are upper-cased and checked *)
Definition check_enum (valid : list ustr) (opt : ustr) (m : cmap) : result cmap :=
  match cget m opt with
  | None => Err EKey
  | Some v => let V := upper v in if mem V valid then Ok (cset opt V m) else Err EValue
  end.
Definition valid_partitionings : list ustr :=
  Tables.no_partitioning ++ [Tables.c_partial_aggregations_partitioning] ++ [Tables.c_maximal_partitioning].
Definition validate (m : cmap) : result cmap :=
  rdo m1 <- check_enum Tables.valid_output_formats Tables.o_output_format m;
  rdo m2 <- check_enum Tables.valid_logging_level Tables.o_logging_level m1;
  check_enum valid_partitionings Tables.o_mapping_partitioning m2.
Definition load (m : cmap) : result cmap := validate (complete m).

(* ConfigParser.getboolean *)
Definition getboolean (v : ustr) : option bool :=
  let l := lower v in
  if mem l [u "1"; u "yes"; u "true"; u "on"] then Some true
  else if mem l [u "0"; u "no"; u "false"; u "off"] then Some false else None.
(* ConfigParser.getint = int(value): blanks around, an optional sign, decimal digits (underscores etc. not modelled) *)
Definition getint (v : ustr) : option Z :=
  match strip v with
  | 45 :: r => option_map (fun n => Z.opp (Z.of_N n)) (N_of_dec r)
  | 43 :: r => option_map Z.of_N (N_of_dec r)
  | r => option_map Z.of_N (N_of_dec r)
  end.
(* get_na_values: the set of the comma-separated tokens *)
Definition na_values (v : ustr) : list ustr := dedup (split_on [44] v).

(* pathlib: Path(name).with_suffix(ext) on the last component; None = outside the modelled shapes *)
Fixpoint last_index_of (c : N) (s : ustr) (i : nat) (best : option nat) : option nat :=
  match s with [] => best | x :: r => last_index_of c r (S i) (if x =? c then Some i else best) end.
Definition with_suffix (path ext : ustr) : option ustr :=
  let comps := split_on [47] path in
  let name := last comps [] in
  let dirs := removelast comps in
  match name with
  | [] => None
  | _ =>
      if ueqb name [46] || ueqb name [46; 46] then None else
      let stem := match last_index_of 46 name 0 None with
                  | Some O => name                       (* a leading dot is not a suffix *)
                  | Some i => if Nat.eqb (S i) (length name) then name (* trailing dot: not modelled below *) else firstn i name
                  | None => name
                  end in
      if match rev name with 46 :: _ => true | _ => false end then None else
      Some (join [47] (dirs ++ [stem ++ ext]))
  end.
Definition output_path (m : cmap) (group : ustr) : option ustr :=
  match cget m Tables.o_output_format with
  | None => None
  | Some fmt =>
      match assoc fmt Tables.output_format_file_extension with
      | None => None
      | Some ext =>
          match cget m Tables.o_output_dir, cget m Tables.o_output_file with
          | Some d, Some f =>
              if negb (ueqb d []) then with_suffix (d ++ [47] ++ group) ext
              else if negb (ueqb f []) then with_suffix f ext
              else with_suffix Tables.o_default_output_file ext
          | _, _ => None
          end
      end
  end.
