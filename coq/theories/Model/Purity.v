(* The state a library call can see or change, as far as the repository's code is concerned: the caller's in-memory
   sources, which python_data.get_ram_data L17-37 reads by reference and, for DataFrames, rewrites in place (every
   double quote of the string cells of object columns is removed).  Definitions only. *)
From Coq Require Import String.
From Morph Require Import Base.UStr Model.Data.
Local Open Scope N_scope.

Definition strip_quotes (s : ustr) : ustr := filter (fun c => negb (c =? 34)) s.
Definition strip_value (v : value) : value := match v with VStr s => VStr (strip_quotes s) | x => x end.
(* a DataFrame object as the caller holds it *)
Definition pyframe := table.
(* get_ram_data on a DataFrame: the object after the call, and the rows handed to the engine *)
Definition ram_read (f : pyframe) : pyframe * table :=
  let f' := {| t_cols := t_cols f; t_rows := map (map strip_value) (t_rows f) |} in (f', f').
(* a call whose result is some function of the rows it was handed *)
Section Call.
  Variable R : Type.
  Variable engine : table -> R.
  Definition call (world : pyframe) : pyframe * R := let '(w', rows) := ram_read world in (w', engine rows).
  Fixpoint calls (n : nat) (world : pyframe) : list R :=
    match n with O => [] | S k => let '(w', r) := call world in r :: calls k w' end.
End Call.
